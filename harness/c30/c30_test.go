//go:build verif

package app

// C30 — "Message ids allocated by a node are unique and strictly increasing
// across concurrent callers, and once a restore floor is set no id at or below
// the restored maximum is issued."
//
// In-package (the allocator is unexported). 1..64 goroutines hammer the real
// nodeMessageIDs.Next, interleaved with SetFloor(f) for f below / at / slightly
// above recently issued ids and far in the future. Every call is recorded as
// (call tick, return tick, value) on ONE logical clock (a single atomic
// counter); records live in per-goroutine slices that are merged after the
// goroutines joined, so the recorder never serialises the calls.
//
// Deciding oracle (logical ticks only, no wall clock):
//   (1) all returned ids are pairwise distinct;
//   (2) interval order: ret(a) < call(b)  =>  id(a) < id(b);
//   (3) SetFloor(f) returned nil at tick t, Next b with call(b) > t => id(b) > f.
//       A SetFloor that returned an error imposes nothing (the real code
//       refuses floors the natural clock has not passed yet; the statement only
//       speaks about floors that were *set*). Whether a "slightly above" floor
//       is accepted depends on how far the wall clock moved in between — both
//       outcomes are legal and only counted.
//   (4) cross-check: porcupine on sub-histories (<= ~2000 ops: contiguous
//       windows for narrow runs, randomly thinned regions for wide ones) of the
//       history with the sequential model "state = low-water mark; Next->v legal
//       iff v > low; SetFloor(f)->nil raises low to max(low,f)". Any sub-history
//       of a history that is linearizable for this model is linearizable, so
//       windows are sound. Checker timeout => Inconclusive.
//   (5) mechanism monitor (in-package observability, stronger than the literal
//       statement, cannot fire on the shipped code because both writers only
//       CAS the floor upwards): the floor word never decreases, and after a
//       Next returned id the floor is >= id. The floor is what keeps (1)/(2)
//       true when the Snowflake clock regresses, which cannot be injected here.

import (
	"fmt"
	"math"
	"runtime"
	"sort"
	"sync"
	"sync/atomic"
	"testing"
	"time"

	"github.com/WuKongIM/WuKongIM/pkg/verifkit"
	"github.com/anishathalye/porcupine"
)

const (
	c30KindNext     = uint8(0)
	c30KindFloorNil = uint8(1)
	c30KindFloorErr = uint8(2)
)

// floor classes (relative to the caller's most recently returned id)
const (
	c30FloorBelow = iota
	c30FloorAt
	c30FloorAbove
	c30FloorFar
	c30FloorRestore // greatest id of the previous allocator instance (restart + restore), set before any Next
	c30FloorClasses
)

var c30FloorClassName = [...]string{"below", "at", "above", "far", "restored-max"}

type c30Rec struct {
	Call int64  `json:"call"`
	Ret  int64  `json:"ret"`
	Val  uint64 `json:"val"` // Next: returned id; SetFloor: requested floor
	Kind uint8  `json:"kind"`
	Cls  uint8  `json:"cls"`
	G    uint16 `json:"g"`
}

type c30Worker struct {
	recs         []c30Rec
	floorBelowID int    // times floor.Load() < id right after Next returned id
	floorBelowW  [2]uint64
}

type c30In struct {
	Kind uint8 // 0 next, 1 setfloor
	F    uint64
}
type c30Out struct {
	ID  uint64
	Nil bool
}

var c30Model = porcupine.Model{
	Init: func() interface{} { return uint64(0) },
	Step: func(state, input, output interface{}) (bool, interface{}) {
		low := state.(uint64)
		in := input.(c30In)
		out := output.(c30Out)
		if in.Kind == 0 {
			if out.ID > low {
				return true, out.ID
			}
			return false, low
		}
		if out.Nil && in.F > low {
			return true, in.F
		}
		return true, low
	},
	Equal: func(a, b interface{}) bool { return a.(uint64) == b.(uint64) },
	DescribeOperation: func(input, output interface{}) string {
		in := input.(c30In)
		out := output.(c30Out)
		if in.Kind == 0 {
			return fmt.Sprintf("Next()->%d", out.ID)
		}
		return fmt.Sprintf("SetFloor(%d)->nil=%v", in.F, out.Nil)
	},
}

func c30PickFloor(rng interface {
	IntN(int) int
	Uint64() uint64
}, last, older uint64) (uint64, uint8) {
	const ms = uint64(1) << 22
	switch rng.IntN(10) {
	case 0, 1: // below
		switch rng.IntN(5) {
		case 0:
			return 0, c30FloorBelow
		case 1:
			return 1, c30FloorBelow
		case 2:
			if last > 1 {
				return last - 1, c30FloorBelow
			}
			return 0, c30FloorBelow
		case 3:
			d := uint64(rng.IntN(1<<20)) + 1
			if last > d {
				return last - d, c30FloorBelow
			}
			return 0, c30FloorBelow
		default:
			d := (uint64(rng.IntN(5000)) + 1) * ms
			if last > d {
				return last - d, c30FloorBelow
			}
			return 0, c30FloorBelow
		}
	case 2, 3: // exactly the most recent id this caller obtained
		return last, c30FloorAt
	case 4, 5, 6, 7: // slightly above an id this caller obtained recently: same ms / next few ms
		// (based on an id up to 64 own calls old, so that the natural clock has
		// sometimes passed the floor and sometimes not; classified against the
		// newest own id below)
		ds := [...]uint64{1, 2, 17, 255, 4095, 4096, 1 << 13, ms - 1, ms, ms + 1, 2 * ms, 3 * ms, 5 * ms, 20 * ms, 100 * ms}
		f := older + ds[rng.IntN(len(ds))]
		switch {
		case f < last:
			return f, c30FloorBelow
		case f == last:
			return f, c30FloorAt
		}
		return f, c30FloorAbove
	default: // far in the future
		switch rng.IntN(6) {
		case 0:
			return math.MaxUint64, c30FloorFar
		case 1:
			return math.MaxInt64, c30FloorFar
		case 2:
			return uint64(math.MaxInt64) + 1, c30FloorFar
		case 3:
			return last + (5000+uint64(rng.IntN(100000)))*ms, c30FloorFar
		case 4:
			return last + (uint64(rng.IntN(1<<30))+3600_000)*ms | 0x3fffff, c30FloorFar
		default:
			return (last | 0x3fffff) + 10_000*ms, c30FloorFar
		}
	}
}

func TestVerifC30(t *testing.T) {
	r := verifkit.Start(t, "C30", "main")
	defer r.Finish()
	r.SetRule("case = (goroutine count G in 1..64, calls per goroutine, SetFloor rate) from the PRNG; G goroutines call the real nodeMessageIDs.Next/SetFloor, every call recorded as (call tick, return tick, value) on one atomic logical clock. evaluation = one Next return checked for distinctness, interval order against all earlier-returned calls, and every nil SetFloor that returned before it started. Non-trivial case = at least two Next calls overlapped in logical time (G>=2) or a SetFloor with f above the caller's newest id returned nil before later Next calls; distinct by (case index, G, overlap bucket, accepted-floor classes).")
	r.Assume("Snowflake ids come from the process monotonic clock (bwmarrin/snowflake uses time.Since on a monotonic epoch); a backwards clock step cannot be injected (no seam), so the floor's protection against clock regression is only monitored through the in-package floor-monotonicity invariant.")
	r.Assume("All allocators under test are created by newNodeMessageIDs; one allocator per case.")

	gs := []int{1, 2, 3, 4, 6, 8, 12, 16, 24, 32, 48, 64}
	nCases := r.N(24, 60)
	perCase := r.N(25_000, 100_000)
	pWindows := r.N(1, 3)

	prevMax := uint64(0)
	for ci := 0; ci < nCases; ci++ {
		if r.Skip(ci) {
			continue
		}
		crng := r.Rand(30, uint64(ci))
		G := gs[ci%len(gs)]
		if crng.IntN(4) == 0 {
			G = 1 + crng.IntN(64)
		}
		floorEvery := []int{8, 32, 64, 256, 1024}[crng.IntN(5)]
		nodeID := uint64(crng.IntN(1024))
		total := perCase/2 + crng.IntN(perCase)
		per := total / G
		if per < 50 {
			per = 50
		}
		r.BeginCase(ci, fmt.Sprintf("G=%d per=%d floorEvery=%d node=%d", G, per, floorEvery, nodeID))

		ids, err := newNodeMessageIDs(nodeID)
		if err != nil {
			r.Inconclusive(fmt.Sprintf("newNodeMessageIDs(%d): %v", nodeID, err))
			continue
		}
		var clock atomic.Int64
		workers := make([]*c30Worker, G)
		for g := range workers {
			workers[g] = &c30Worker{recs: make([]c30Rec, 0, per+1)}
		}

		// floor sampler: the floor word must never decrease.
		var stop atomic.Bool
		var samplerDone sync.WaitGroup
		var floorSamples int64
		var floorRegress [2]uint64
		floorRegressions := 0
		samplerDone.Add(1)
		go func() {
			defer samplerDone.Done()
			prev := ids.floor.Load()
			n := int64(0)
			for !stop.Load() {
				cur := ids.floor.Load()
				if cur < prev {
					if floorRegressions == 0 {
						floorRegress = [2]uint64{prev, cur}
					}
					floorRegressions++
				}
				prev = cur
				n++
				if n&0x3ff == 0 {
					runtime.Gosched()
				}
			}
			floorSamples = n
		}()

		// restart + restore: the new instance is fenced with the greatest id the
		// previous instance (previous case) issued, before its first Next.
		if prevMax != 0 {
			f := prevMax
			if crng.IntN(3) == 0 {
				f += uint64(crng.IntN(4096))
			}
			c := clock.Add(1)
			e := ids.SetFloor(f)
			rt := clock.Add(1)
			k := c30KindFloorNil
			if e != nil {
				k = c30KindFloorErr
			}
			workers[0].recs = append(workers[0].recs, c30Rec{Call: c, Ret: rt, Val: f, Kind: k, Cls: c30FloorRestore, G: 0})
		}

		var start, done sync.WaitGroup
		start.Add(1)
		for g := 0; g < G; g++ {
			done.Add(1)
			go func(g int) {
				defer done.Done()
				w := workers[g]
				rng := r.Rand(30, uint64(ci), uint64(g)+1)
				var last uint64
				var recent [64]uint64 // ring of this goroutine's newest ids
				start.Wait()
				for i := 0; i < per; i++ {
					if last != 0 && rng.IntN(floorEvery) == 0 {
						older := last
						if rng.IntN(3) > 0 {
							older = recent[rng.IntN(len(recent))]
							if older == 0 {
								older = last
							}
						}
						f, cls := c30PickFloor(rng, last, older)
						c := clock.Add(1)
						e := ids.SetFloor(f)
						rt := clock.Add(1)
						k := c30KindFloorNil
						if e != nil {
							k = c30KindFloorErr
						}
						w.recs = append(w.recs, c30Rec{Call: c, Ret: rt, Val: f, Kind: k, Cls: cls, G: uint16(g)})
						continue
					}
					c := clock.Add(1)
					id := ids.Next()
					rt := clock.Add(1)
					w.recs = append(w.recs, c30Rec{Call: c, Ret: rt, Val: id, Kind: c30KindNext, G: uint16(g)})
					if fl := ids.floor.Load(); fl < id {
						if w.floorBelowID == 0 {
							w.floorBelowW = [2]uint64{id, fl}
						}
						w.floorBelowID++
					}
					last = id
					recent[i&63] = id
				}
			}(g)
		}
		finished := verifkit.Watchdog(10*time.Minute, func() {
			start.Done()
			done.Wait()
		})
		stop.Store(true)
		if !finished {
			r.Inconclusive(fmt.Sprintf("case %d (G=%d): allocator calls did not finish within the 10 min watchdog (possible livelock in Next)", ci, G))
			return
		}
		samplerDone.Wait()
		r.Count("floor_samples", int(floorSamples))

		// ---- merge ----
		var all []c30Rec
		for _, w := range workers {
			all = append(all, w.recs...)
		}
		sort.Slice(all, func(i, j int) bool { return all[i].Call < all[j].Call })
		var nexts []c30Rec
		var floorsNil []c30Rec
		acceptedCls := [c30FloorClasses]int{}
		for _, x := range all {
			switch x.Kind {
			case c30KindNext:
				nexts = append(nexts, x)
			case c30KindFloorNil:
				floorsNil = append(floorsNil, x)
				acceptedCls[x.Cls]++
				r.Count("setfloor.nil."+c30FloorClassName[x.Cls], 1)
			case c30KindFloorErr:
				r.Count("setfloor.err."+c30FloorClassName[x.Cls], 1)
			}
		}
		r.Count("next_calls", len(nexts))
		r.Eval(len(nexts))
		r.Max("max_history_len", len(all))

		// (5) mechanism monitor
		if floorRegressions > 0 {
			r.Violation("floor-regressed", map[string]any{"G": G, "times": floorRegressions, "prev": floorRegress[0], "then": floorRegress[1]})
		}
		for g, w := range workers {
			if w.floorBelowID > 0 {
				r.Violation("floor-below-issued-id", map[string]any{"G": G, "goroutine": g, "times": w.floorBelowID, "id": w.floorBelowW[0], "floor_after_return": w.floorBelowW[1]})
				break
			}
		}
		// quiescent: floor must dominate everything that was issued
		if len(nexts) > 0 {
			maxID := uint64(0)
			for _, x := range nexts {
				if x.Val > maxID {
					maxID = x.Val
				}
			}
			prevMax = maxID
			if fl := ids.floor.Load(); fl < maxID {
				r.Violation("floor-below-issued-id:quiescent", map[string]any{"G": G, "max_id": maxID, "floor": fl})
			}
		}

		// (1) distinct
		byID := append([]c30Rec(nil), nexts...)
		sort.Slice(byID, func(i, j int) bool { return byID[i].Val < byID[j].Val })
		dups := 0
		for i := 1; i < len(byID); i++ {
			if byID[i].Val == byID[i-1].Val {
				if dups == 0 {
					r.Violation("duplicate-id", map[string]any{"G": G, "a": byID[i-1], "b": byID[i]})
				}
				dups++
			}
		}
		r.Count("duplicate_ids", dups)

		// (2) interval order: sweep in call order, with the max id among calls
		// that returned strictly before.
		byRet := append([]c30Rec(nil), nexts...)
		sort.Slice(byRet, func(i, j int) bool { return byRet[i].Ret < byRet[j].Ret })
		j := 0
		var maxPrev c30Rec
		havePrev := false
		orderViol := 0
		constrained := 0
		// overlap measure: number of calls open when a call starts
		maxOverlap := 0
		openPtr := 0 // number of calls (in byRet order) that returned before current call
		for bi, b := range nexts {
			for j < len(byRet) && byRet[j].Ret < b.Call {
				if !havePrev || byRet[j].Val > maxPrev.Val {
					maxPrev = byRet[j]
					havePrev = true
				}
				j++
			}
			openPtr = j
			if ov := bi - openPtr + 1; ov > maxOverlap { // calls started (incl. b) minus calls returned
				maxOverlap = ov
			}
			if havePrev {
				constrained++
				if maxPrev.Val >= b.Val {
					if orderViol == 0 {
						r.Violation("not-increasing-across-completed-calls", map[string]any{"G": G, "earlier": maxPrev, "later": b})
					}
					orderViol++
				}
			}
		}
		r.Count("order_constrained_calls", constrained)
		r.Count("order_violations", orderViol)
		r.Max("max_overlap", maxOverlap)

		// (3) accepted floors
		sort.Slice(floorsNil, func(i, j int) bool { return floorsNil[i].Ret < floorsNil[j].Ret })
		j = 0
		var maxFloor c30Rec
		haveFloor := false
		floorViol := 0
		floorConstrained := 0
		floorAboveBinding := 0 // Next calls whose binding floor was above the id the floor's caller had seen
		for _, b := range nexts {
			for j < len(floorsNil) && floorsNil[j].Ret < b.Call {
				if !haveFloor || floorsNil[j].Val > maxFloor.Val {
					maxFloor = floorsNil[j]
					haveFloor = true
				}
				j++
			}
			if haveFloor {
				floorConstrained++
				if maxFloor.Cls == c30FloorAbove || maxFloor.Cls == c30FloorFar {
					floorAboveBinding++
				}
				if b.Val <= maxFloor.Val {
					if floorViol == 0 {
						r.Violation("id-at-or-below-accepted-floor:"+c30FloorClassName[maxFloor.Cls], map[string]any{"G": G, "setfloor": maxFloor, "next": b})
					}
					floorViol++
				}
			}
		}
		r.Count("floor_constrained_calls", floorConstrained)
		r.Count("floor_constrained_calls_above", floorAboveBinding)
		r.Count("floor_violations", floorViol)

		// (4) porcupine on sub-histories. Any subset of the operations of a
		// history that is linearizable for c30Model is linearizable, so both
		// contiguous windows and thinned regions are sound. The checker is
		// exponential in the number of simultaneously open calls, so wide runs
		// are thinned to an expected ~4 open calls; a timeout is retried on a
		// sparser thinning of the same region before it is declared inconclusive.
		for wv := 0; wv < pWindows && len(all) > 0; wv++ {
			L := 200 + crng.IntN(1801)
			rho := 1.0
			if G > 4 {
				rho = 4.0 / float64(G)
			}
			region := int(float64(L) / rho)
			if region > len(all) {
				region = len(all)
			}
			off := crng.IntN(len(all) - region + 1)
			res := porcupine.Unknown
			nOps := 0
			for attempt := 0; attempt < 4 && res == porcupine.Unknown; attempt++ {
				ops := make([]porcupine.Operation, 0, L+L/4)
				for _, x := range all[off : off+region] {
					if rho < 1 && crng.Float64() >= rho {
						continue
					}
					in := c30In{Kind: 0}
					out := c30Out{ID: x.Val}
					if x.Kind != c30KindNext {
						in = c30In{Kind: 1, F: x.Val}
						out = c30Out{Nil: x.Kind == c30KindFloorNil}
					}
					ops = append(ops, porcupine.Operation{ClientId: int(x.G), Input: in, Call: x.Call, Output: out, Return: x.Ret})
				}
				nOps = len(ops)
				res = porcupine.CheckOperationsTimeout(c30Model, ops, 40*time.Second)
				if res == porcupine.Unknown {
					r.Count("porcupine.timeout_retried_sparser", 1)
					rho /= 2
				}
			}
			r.Count("porcupine."+string(res), 1)
			r.Count("porcupine.ops", nOps)
			if rho < 1 {
				r.Count("porcupine.thinned_subhistories", 1)
			} else {
				r.Count("porcupine.contiguous_windows", 1)
			}
			switch res {
			case porcupine.Illegal:
				w := all[off : off+region]
				if len(w) > 60 {
					w = w[:60]
				}
				r.Violation("porcupine-illegal", map[string]any{"G": G, "region_off": off, "region_len": region, "thinning": rho, "first_records_of_region": w})
			case porcupine.Unknown:
				r.Inconclusive(fmt.Sprintf("case %d: porcupine timed out on a %d-op sub-history even after thinning (G=%d)", ci, nOps, G))
			}
		}

		nontrivial := maxOverlap >= 2 || floorAboveBinding > 0
		if nontrivial {
			ob := 0
			for v := maxOverlap; v > 1; v >>= 1 {
				ob++
			}
			r.Nontrivial(fmt.Sprintf("c%d|G%d|ov%d|fl%v", ci, G, ob, [5]bool{acceptedCls[0] > 0, acceptedCls[1] > 0, acceptedCls[2] > 0, acceptedCls[3] > 0, acceptedCls[4] > 0}))
		}
		if r.WantSample() && len(all) > 0 && ci%5 == 1 {
			n := len(all)
			if n > 12 {
				n = 12
			}
			r.Sample(map[string]any{"case": ci, "G": G, "per_goroutine": per, "floor_every": floorEvery, "max_overlap": maxOverlap, "first_records": all[:n]})
		}
	}
}
