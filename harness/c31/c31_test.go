//go:build verif

package delivery_test

// C31 — "For each recipient session, committed messages of one channel are
// pushed in sequence order. Each recipient of a durable delivery plan is
// either pushed to its online routes or reported offline once per plan, and a
// retried or stale route never causes a push to any session other than its
// exact target."
//
// Trace monitor. The real delivery.Runtime is driven with generated plan
// streams (1-8 channels, each channel's plans enqueued by ONE goroutine that
// waits for EnqueueRecipientDeliveryPlan to return, so acceptance order per
// channel is well defined) against fake ports whose answers were fixed by the
// PRNG before the run started. Every port invocation is recorded with a
// call stamp and a return stamp taken from one logical clock. The oracle is
// evaluated offline, keyed by the plan id carried in Event.MessageID (and in
// Target.AuthorityEpoch for the presence port, which is not given the event).
//
// Deliberately not asserted (see final comments at each check):
//   * anything about timing;
//   * coverage (lower bounds) for plans accepted in a generation that was
//     hard-stopped (Stop with an already expired context cancels accepted
//     work by design);
//   * sender echo suppression (a resolved route that equals the sender's own
//     session is documented to be skipped: it is neither required nor
//     forbidden here);
//   * effects of rejected plans (counted only).

import (
	"context"
	"errors"
	"fmt"
	"math/rand/v2"
	"runtime"
	"sort"
	"sync"
	"sync/atomic"
	"testing"
	"time"

	"github.com/WuKongIM/WuKongIM/internal/contracts/authority"
	channelappendcontract "github.com/WuKongIM/WuKongIM/internal/contracts/channelappend"
	"github.com/WuKongIM/WuKongIM/internal/contracts/onlinedelivery"
	"github.com/WuKongIM/WuKongIM/internal/runtime/delivery"
	"github.com/WuKongIM/WuKongIM/pkg/verifkit"
)

const c31LocalNode = uint64(1)

// per-route scripted outcomes
const (
	c31OutAccepted uint8 = iota
	c31OutRetryable
	c31OutTerminal
	c31OutStale
	c31OutPanic
)

// per-remote-call scripted faults
const (
	c31CallNormal uint8 = iota
	c31CallError
	c31CallPanic
)

// lifecycle actions
const (
	c31ActStop uint8 = iota
	c31ActQuiesce
	c31ActHardStop
	c31ActQuiesceDetached
)

var c31ActNames = []string{"stop", "quiesce", "hardstop", "quiesce-detached"}

var (
	c31ErrRetry    = errors.New("c31: retryable write")
	c31ErrTerminal = errors.New("c31: terminal write failure")
	c31ErrStale    = errors.New("c31: stale session fence")
	c31ErrRemote   = errors.New("c31: remote transport failure")
	c31ErrPresence = errors.New("c31: presence authority unavailable")
)

type c31SessionKey struct {
	Owner   uint64
	UID     string
	Session uint64
}

type c31RouteScript struct {
	outcomes []uint8
	latUS    []int
	next     int
}

type c31TargetSpec struct {
	err    bool
	routes []onlinedelivery.Route // answer, in order, duplicates kept
}

type c31PlanSpec struct {
	id      uint64
	ch      int
	ordinal int
	durable bool
	plan    onlinedelivery.RecipientDeliveryPlan
	targets []c31TargetSpec
	// truncate >= 0: the presence fake returns only that many results
	// (the remaining targets are documented to fail with "result missing").
	truncate     int
	presenceLat  int
	offlinePanic bool
	cancelledCtx bool // first enqueue attempt uses an already cancelled context
	retryClosed  bool // re-submit the same plan after ErrRuntimeClosed

	// expectations derived from the scripted presence answer
	resolved   map[onlinedelivery.Route]int  // multiplicity of every route that must be pushed
	returned   map[onlinedelivery.Route]bool // every exact route returned (incl. sender-suppressed)
	suppressed map[onlinedelivery.Route]bool
	expOffline map[string]bool

	mu       sync.Mutex
	scripts  map[onlinedelivery.Route]*c31RouteScript
	faults   map[uint64][]uint8 // per remote owner: fault of the k-th call
	callsBy  map[uint64]int
	defaultS c31RouteScript

	// filled by the producer goroutine, read after it was joined
	accepted     bool
	genLo, genHi int64
	rejections   int
}

func (p *c31PlanSpec) nextOutcome(route onlinedelivery.Route) (uint8, int) {
	p.mu.Lock()
	defer p.mu.Unlock()
	s := p.scripts[route]
	if s == nil {
		return c31OutAccepted, 0
	}
	i := s.next
	s.next++
	if i >= len(s.outcomes) {
		return c31OutAccepted, 0
	}
	return s.outcomes[i], s.latUS[i]
}

func (p *c31PlanSpec) nextFault(owner uint64) uint8 {
	p.mu.Lock()
	defer p.mu.Unlock()
	k := p.callsBy[owner]
	p.callsBy[owner] = k + 1
	f := p.faults[owner]
	if k < len(f) {
		return f[k]
	}
	return c31CallNormal
}

type c31Action struct {
	at   int64 // number of enqueue attempts after which the action fires
	kind uint8
}

type c31Event struct {
	Kind     string                 `json:"kind"` // presence | write | push | offline
	Plan     uint64                 `json:"plan"`
	Start    int64                  `json:"start"`
	Ret      int64                  `json:"ret"`
	Owner    uint64                 `json:"owner,omitempty"`
	Routes   []onlinedelivery.Route `json:"routes,omitempty"`
	Retry    []onlinedelivery.Route `json:"retry,omitempty"`
	Accepted int                    `json:"accepted,omitempty"`
	Dropped  int                    `json:"dropped,omitempty"`
	CallErr  bool                   `json:"call_err,omitempty"`
	Panicked bool                   `json:"panicked,omitempty"`
	UIDs     []string               `json:"uids,omitempty"`
	Channel  string                 `json:"channel,omitempty"`
	ChType   uint8                  `json:"ch_type,omitempty"`
	Seq      uint64                 `json:"seq,omitempty"`
}

type c31Terminal struct {
	Result     string
	Durable    bool
	Recipients int
}

type c31World struct {
	// configuration
	workers, queueSize, batchSize, ownerConc, maxAttempts int
	backoffUS, maxBackoffUS                               int
	channels                                              []struct {
		id string
		ty uint8
	}
	plansByCh [][]*c31PlanSpec
	specs     map[uint64]*c31PlanSpec
	actions   []c31Action
	sessions  []c31SessionKey // all local session candidates (for SessionClosed sweeps)
	obsPanic  int64

	// runtime state
	rt        *delivery.Runtime
	clock     atomic.Int64
	mu        sync.Mutex
	events    []c31Event
	terminals []c31Terminal
	ownerObs  atomic.Int64
	obsCalls  atomic.Int64
	attempts  atomic.Int64
	gen       atomic.Int64
	open      atomic.Bool
	hardGen   map[int64]bool
	feedback  chan delivery.Recvack
	fbMode    int
}

func (w *c31World) record(ev c31Event) {
	w.mu.Lock()
	w.events = append(w.events, ev)
	w.mu.Unlock()
}

func c31Pause(us int) {
	if us <= 0 {
		return
	}
	if us == 1 {
		runtime.Gosched()
		return
	}
	time.Sleep(time.Duration(us) * time.Microsecond)
}

// ---------------------------------------------------------------- fakes

type c31Presence struct{ w *c31World }

func (p c31Presence) EndpointsByTargets(_ context.Context, targets []onlinedelivery.RecipientTargetBatch) []delivery.TargetPresenceResult {
	w := p.w
	start := w.clock.Add(1)
	var id uint64
	if len(targets) > 0 {
		id = targets[0].Target.AuthorityEpoch
	}
	spec := w.specs[id]
	if spec == nil {
		w.record(c31Event{Kind: "presence", Plan: id, Start: start, Ret: w.clock.Add(1)})
		return make([]delivery.TargetPresenceResult, len(targets))
	}
	c31Pause(spec.presenceLat)
	n := len(spec.targets)
	if spec.truncate >= 0 && spec.truncate < n {
		n = spec.truncate
	}
	out := make([]delivery.TargetPresenceResult, n)
	for i := 0; i < n; i++ {
		if spec.targets[i].err {
			out[i].Err = c31ErrPresence
			continue
		}
		out[i].Routes = append([]onlinedelivery.Route(nil), spec.targets[i].routes...)
	}
	w.record(c31Event{Kind: "presence", Plan: id, Start: start, Ret: w.clock.Add(1)})
	return out
}

type c31Writer struct{ w *c31World }

func (sw c31Writer) WriteSession(ctx context.Context, write delivery.LocalSessionWrite) delivery.SessionWriteResult {
	w := sw.w
	start := w.clock.Add(1)
	id := write.Event.MessageID
	spec := w.specs[id]
	out, lat := c31OutAccepted, 0
	if spec != nil {
		out, lat = spec.nextOutcome(write.Route)
	}
	c31Pause(lat)
	ev := c31Event{Kind: "write", Plan: id, Start: start, Owner: c31LocalNode,
		Routes:  []onlinedelivery.Route{write.Route},
		Channel: write.Event.ChannelID, ChType: write.Event.ChannelType, Seq: write.Event.MessageSeq}
	var res delivery.SessionWriteResult
	switch out {
	case c31OutAccepted:
		ev.Accepted = 1
		res = delivery.SessionWriteResult{Disposition: delivery.SessionWriteAccepted}
		ack := delivery.Recvack{UID: write.Route.UID, SessionID: write.Route.SessionID, MessageID: id, MessageSeq: write.Event.MessageSeq}
		switch (int(id) + int(write.Route.SessionID) + w.fbMode) % 4 {
		case 0:
			// fast RECVACK delivered while the owner push is still in progress
			_ = w.rt.Recvack(ctx, ack)
		case 1, 2:
			select {
			case w.feedback <- ack:
			default:
			}
		}
	case c31OutRetryable:
		ev.Retry = ev.Routes
		res = delivery.SessionWriteResult{Disposition: delivery.SessionWriteRetryable, Err: c31ErrRetry}
	case c31OutTerminal:
		ev.Dropped = 1
		res = delivery.SessionWriteResult{Disposition: delivery.SessionWriteDropped, Err: c31ErrTerminal}
	case c31OutStale:
		ev.Dropped = 1
		res = delivery.SessionWriteResult{Disposition: delivery.SessionWriteDropped, Err: c31ErrStale}
	case c31OutPanic:
		// the runtime documents a writer panic as a retryable exact route
		ev.Retry = ev.Routes
		ev.Panicked = true
	}
	ev.Ret = w.clock.Add(1)
	w.record(ev)
	if out == c31OutPanic {
		panic("c31: scripted session writer panic")
	}
	return res
}

type c31Remote struct{ w *c31World }

func (rp c31Remote) PushOwner(_ context.Context, push onlinedelivery.OwnerPush) (onlinedelivery.OwnerPushResult, error) {
	w := rp.w
	start := w.clock.Add(1)
	id := push.Event.MessageID
	spec := w.specs[id]
	routes := append([]onlinedelivery.Route(nil), push.Routes...)
	ev := c31Event{Kind: "push", Plan: id, Start: start, Owner: push.OwnerNodeID, Routes: routes,
		Channel: push.Event.ChannelID, ChType: push.Event.ChannelType, Seq: push.Event.MessageSeq}
	fault := c31CallNormal
	if spec != nil {
		fault = spec.nextFault(push.OwnerNodeID)
	}
	var res onlinedelivery.OwnerPushResult
	maxLat := 0
	if fault == c31CallNormal {
		for _, route := range routes {
			out, lat := c31OutAccepted, 0
			if spec != nil {
				out, lat = spec.nextOutcome(route)
			}
			if lat > maxLat {
				maxLat = lat
			}
			switch out {
			case c31OutAccepted:
				res.Accepted = append(res.Accepted, route)
			case c31OutRetryable, c31OutPanic:
				res.Retryable = append(res.Retryable, route)
			default:
				res.Dropped = append(res.Dropped, route)
			}
		}
	} else {
		maxLat = int(id%7) * 20
	}
	c31Pause(maxLat)
	ev.Accepted, ev.Dropped = len(res.Accepted), len(res.Dropped)
	ev.Retry = append([]onlinedelivery.Route(nil), res.Retryable...)
	switch fault {
	case c31CallError:
		ev.CallErr = true
		ev.Retry = routes // a failed transport call keeps every submitted route eligible
	case c31CallPanic:
		ev.Panicked = true
		ev.Retry = routes
	}
	ev.Ret = w.clock.Add(1)
	w.record(ev)
	switch fault {
	case c31CallError:
		return onlinedelivery.OwnerPushResult{}, c31ErrRemote
	case c31CallPanic:
		panic("c31: scripted remote pusher panic")
	}
	return res, nil
}

type c31Offline struct{ w *c31World }

func (o c31Offline) ObserveOfflineRecipients(_ context.Context, event delivery.OfflineRecipientsEvent) {
	w := o.w
	start := w.clock.Add(1)
	id := event.Event.MessageID
	w.record(c31Event{Kind: "offline", Plan: id, Start: start, Ret: w.clock.Add(1),
		UIDs: append([]string(nil), event.UIDs...), Channel: event.Event.ChannelID, ChType: event.Event.ChannelType, Seq: event.Event.MessageSeq})
	if spec := w.specs[id]; spec != nil && spec.offlinePanic {
		panic("c31: scripted offline observer panic")
	}
}

type c31Observer struct{ w *c31World }

func (o c31Observer) ObservePlanAdmission(delivery.PlanAdmissionEvent) {}
func (o c31Observer) SetRuntimePressure(delivery.RuntimePressureEvent) {}
func (o c31Observer) ObserveOwnerPush(delivery.OwnerPushEvent) {
	o.w.ownerObs.Add(1)
	o.maybePanic()
}
func (o c31Observer) ObservePlanTerminal(event delivery.PlanTerminalEvent) {
	w := o.w
	w.mu.Lock()
	w.terminals = append(w.terminals, c31Terminal{Result: string(event.Result), Durable: event.Mode == onlinedelivery.ModeDurable, Recipients: event.Recipients})
	w.mu.Unlock()
	o.maybePanic()
}
func (o c31Observer) maybePanic() {
	// observer panics are documented not to change delivery outcomes
	if o.w.obsPanic > 0 && o.w.obsCalls.Add(1)%o.w.obsPanic == 0 {
		panic("c31: scripted observer panic")
	}
}

// ---------------------------------------------------------------- generation

func c31Pick[T any](rng *rand.Rand, xs ...T) T { return xs[rng.IntN(len(xs))] }

func c31Generate(rng *rand.Rand, thorough bool) *c31World {
	w := &c31World{specs: map[uint64]*c31PlanSpec{}, hardGen: map[int64]bool{}}
	w.workers = 1 + rng.IntN(8)
	if rng.IntN(8) == 0 {
		w.workers = 1
	}
	w.queueSize = c31Pick(rng, 1, 2, 4, 16, 64, 1024)
	w.batchSize = c31Pick(rng, 1, 2, 3, 8, 256)
	w.ownerConc = 1 + rng.IntN(4)
	w.maxAttempts = 1 + rng.IntN(4)
	w.backoffUS = c31Pick(rng, 1, 10, 50, 200)
	w.maxBackoffUS = w.backoffUS * c31Pick(rng, 1, 2, 4)
	w.fbMode = rng.IntN(4)
	if rng.IntN(5) == 0 {
		w.obsPanic = int64(3 + rng.IntN(20))
	}
	nCh := 1 + rng.IntN(8)
	pOffline := c31Pick(rng, 0.1, 0.3, 0.6)
	pRetry := c31Pick(rng, 0.05, 0.2, 0.4)
	pTerminal := c31Pick(rng, 0.03, 0.1)
	pLat := c31Pick(rng, 0.1, 0.3, 0.6)
	maxLat := c31Pick(rng, 30, 120, 400)
	remoteOwners := []uint64{2, 3, 4}[:1+rng.IntN(3)]

	// user pool with fixed candidate sessions
	nUsers := 3 + rng.IntN(14)
	type sess struct {
		owner  uint64
		id     uint64
		device string
	}
	users := make([]string, nUsers)
	cands := make([][]sess, nUsers)
	for u := range users {
		users[u] = fmt.Sprintf("u%d", u)
		k := 1 + rng.IntN(3)
		for j := 0; j < k; j++ {
			owner := c31LocalNode
			if rng.IntN(2) == 0 {
				owner = remoteOwners[rng.IntN(len(remoteOwners))]
			}
			s := sess{owner: owner, id: uint64(u*10 + j + 1), device: fmt.Sprintf("d%d", j)}
			cands[u] = append(cands[u], s)
			if owner == c31LocalNode {
				w.sessions = append(w.sessions, c31SessionKey{Owner: owner, UID: users[u], Session: s.id})
			}
		}
	}

	hot := rng.IntN(nCh)
	nextID := uint64(1)
	total := 0
	for c := 0; c < nCh; c++ {
		// the same channel id under two types must be treated as two channels
		ch := struct {
			id string
			ty uint8
		}{id: fmt.Sprintf("ch%d", c/2), ty: uint8(1 + c%2)}
		w.channels = append(w.channels, ch)
		n := 3 + rng.IntN(20)
		if c == hot {
			n = 22 + rng.IntN(24)
		}
		if thorough && rng.IntN(4) == 0 {
			n *= 2
		}
		var list []*c31PlanSpec
		for k := 1; k <= n; k++ {
			spec := &c31PlanSpec{id: nextID, ch: c, ordinal: k, durable: rng.IntN(4) != 0, truncate: -1,
				resolved: map[onlinedelivery.Route]int{}, returned: map[onlinedelivery.Route]bool{}, suppressed: map[onlinedelivery.Route]bool{},
				expOffline: map[string]bool{}, scripts: map[onlinedelivery.Route]*c31RouteScript{}, faults: map[uint64][]uint8{}, callsBy: map[uint64]int{}}
			nextID++
			if rng.Float64() < pLat {
				spec.presenceLat = 1 + rng.IntN(maxLat)
			}
			spec.offlinePanic = rng.IntN(25) == 0
			spec.cancelledCtx = rng.IntN(60) == 0
			spec.retryClosed = rng.IntN(2) == 0

			// recipients (duplicate rows on purpose)
			nRec := 1 + rng.IntN(6)
			if rng.IntN(6) == 0 {
				nRec = 6 + rng.IntN(20)
			}
			nT := 1 + rng.IntN(3)
			rows := make([][]channelappendcontract.Recipient, nT)
			for i := 0; i < nRec; i++ {
				u := rng.IntN(nUsers)
				rows[u%nT] = append(rows[u%nT], channelappendcontract.Recipient{UID: users[u], JoinSeq: uint64(rng.IntN(3))})
				if rng.IntN(5) == 0 {
					rows[u%nT] = append(rows[u%nT], channelappendcontract.Recipient{UID: users[u], JoinSeq: uint64(rng.IntN(3))})
				}
			}
			// sender
			sender := rng.IntN(nUsers)
			ev := channelappendcontract.CommittedEnvelope{
				MessageID: spec.id, ChannelID: ch.id, ChannelType: ch.ty, FromUID: users[sender],
				ClientMsgNo: fmt.Sprintf("m%d", spec.id), Payload: []byte{byte(spec.id)},
			}
			if spec.durable || rng.IntN(2) == 0 {
				ev.MessageSeq = uint64(k)
			}
			if rng.IntN(3) == 0 {
				ss := cands[sender][rng.IntN(len(cands[sender]))]
				ev.SenderNodeID, ev.SenderSessionID = ss.owner, ss.id
			}
			// presence answers: one decision per (plan, uid)
			online := map[string][]onlinedelivery.Route{}
			decided := map[string]bool{}
			var targets []onlinedelivery.RecipientTargetBatch
			for t := 0; t < nT; t++ {
				if len(rows[t]) == 0 {
					continue
				}
				tgt := authority.Target{HashSlot: uint16(t), SlotID: uint32(t + 1), LeaderNodeID: uint64(1 + rng.IntN(4)),
					LeaderTerm: uint64(1 + rng.IntN(3)), ConfigEpoch: 1, RouteRevision: uint64(1 + rng.IntN(5)), AuthorityEpoch: spec.id}
				targets = append(targets, onlinedelivery.RecipientTargetBatch{Target: tgt, Recipients: rows[t]})
				ts := c31TargetSpec{err: rng.IntN(12) == 0}
				perRow := rng.IntN(3) != 0 // answer once per row (duplicates kept) or once per uid
				seen := map[string]bool{}
				for _, rec := range rows[t] {
					if !decided[rec.UID] {
						decided[rec.UID] = true
						if rng.Float64() >= pOffline {
							var u int
							fmt.Sscanf(rec.UID, "u%d", &u)
							for _, s := range cands[u] {
								if rng.IntN(3) == 0 {
									continue
								}
								online[rec.UID] = append(online[rec.UID], onlinedelivery.Route{
									UID: rec.UID, OwnerNodeID: s.owner, OwnerBootID: uint64(1 + rng.IntN(2)), OwnerSeq: uint64(1 + rng.IntN(3)),
									SessionID: s.id, DeviceID: s.device, DeviceFlag: uint8(rng.IntN(3)), DeviceLevel: uint8(rng.IntN(2)),
								})
							}
						}
					}
					if !perRow && seen[rec.UID] {
						continue
					}
					seen[rec.UID] = true
					ts.routes = append(ts.routes, online[rec.UID]...)
				}
				if rng.IntN(4) == 0 {
					rng.Shuffle(len(ts.routes), func(i, j int) { ts.routes[i], ts.routes[j] = ts.routes[j], ts.routes[i] })
				}
				spec.targets = append(spec.targets, ts)
			}
			if len(targets) > 1 && rng.IntN(30) == 0 {
				spec.truncate = rng.IntN(len(targets))
			}
			mode := onlinedelivery.ModeTransient
			if spec.durable {
				mode = onlinedelivery.ModeDurable
			}
			spec.plan = onlinedelivery.RecipientDeliveryPlan{Mode: mode, Event: ev, Targets: targets}

			// expectations
			for t, ts := range spec.targets {
				if ts.err || (spec.truncate >= 0 && t >= spec.truncate) {
					continue
				}
				has := map[string]bool{}
				for _, route := range ts.routes {
					has[route.UID] = true
					spec.returned[route] = true
					if ev.FromUID != "" && ev.SenderNodeID != 0 && ev.SenderSessionID != 0 &&
						route.UID == ev.FromUID && route.OwnerNodeID == ev.SenderNodeID && route.SessionID == ev.SenderSessionID {
						spec.suppressed[route] = true
						continue
					}
					spec.resolved[route]++
				}
				if spec.durable {
					for _, rec := range targets[t].Recipients {
						if !has[rec.UID] {
							spec.expOffline[rec.UID] = true
						}
					}
				}
			}
			// scripts
			for route := range spec.returned {
				s := &c31RouteScript{}
				for a := 0; a < 12; a++ {
					x := rng.Float64()
					out := c31OutAccepted
					switch {
					case x < pRetry:
						out = c31OutRetryable
					case x < pRetry+pTerminal:
						out = c31OutTerminal
					case x < pRetry+pTerminal+0.04:
						out = c31OutStale
					case x < pRetry+pTerminal+0.06:
						out = c31OutPanic
					}
					lat := 0
					if rng.Float64() < pLat {
						lat = 1 + rng.IntN(maxLat)
					}
					s.outcomes = append(s.outcomes, out)
					s.latUS = append(s.latUS, lat)
				}
				spec.scripts[route] = s
			}
			for _, owner := range remoteOwners {
				var f []uint8
				for a := 0; a < 8; a++ {
					switch rng.IntN(14) {
					case 0:
						f = append(f, c31CallError)
					case 1:
						f = append(f, c31CallPanic)
					default:
						f = append(f, c31CallNormal)
					}
				}
				spec.faults[owner] = f
			}
			w.specs[spec.id] = spec
			list = append(list, spec)
			total++
		}
		w.plansByCh = append(w.plansByCh, list)
	}
	// lifecycle script
	nAct := c31Pick(rng, 0, 1, 1, 2, 3)
	for i := 0; i < nAct; i++ {
		w.actions = append(w.actions, c31Action{at: int64(rng.IntN(total + 1)), kind: c31Pick(rng, c31ActStop, c31ActStop, c31ActQuiesce, c31ActHardStop, c31ActQuiesceDetached)})
	}
	sort.Slice(w.actions, func(i, j int) bool { return w.actions[i].at < w.actions[j].at })
	return w
}

// ---------------------------------------------------------------- driver

const c31Generous = 4 * time.Minute

func (w *c31World) sweepSessions(stop <-chan struct{}) {
	for {
		for _, s := range w.sessions {
			_ = w.rt.SessionClosed(context.Background(), delivery.SessionClosed{UID: s.UID, SessionID: s.Session})
		}
		select {
		case <-stop:
			return
		case <-time.After(300 * time.Microsecond):
		}
	}
}

// c31Drive runs the workload. It returns "" when the run completed, otherwise
// the reason the run is inconclusive (watchdog).
func c31Drive(w *c31World, cuts *[]int) string {
	w.feedback = make(chan delivery.Recvack, 256)
	w.rt = delivery.NewRuntime(delivery.RuntimeOptions{
		LocalNodeID: c31LocalNode, Presence: c31Presence{w}, RemoteOwnerPusher: c31Remote{w}, SessionWriter: c31Writer{w},
		OfflineRecipientsObserver: c31Offline{w}, Observer: c31Observer{w},
		QueueSize: w.queueSize, Workers: w.workers, PlanTimeout: time.Hour, OwnerPushBatchSize: w.batchSize,
		OwnerConcurrency: w.ownerConc, RetryMaxAttempts: w.maxAttempts,
		RetryInitialBackoff: time.Duration(w.backoffUS) * time.Microsecond, RetryMaxBackoff: time.Duration(w.maxBackoffUS) * time.Microsecond,
	})
	if err := w.rt.Start(context.Background()); err != nil {
		return "initial Start failed: " + err.Error()
	}
	w.open.Store(true)

	// feedback goroutine: delayed RECVACK / SessionClosed
	fbStop := make(chan struct{})
	var fbWG sync.WaitGroup
	fbWG.Add(1)
	go func() {
		defer fbWG.Done()
		n := 0
		for {
			select {
			case <-fbStop:
				return
			case ack := <-w.feedback:
				n++
				if n%5 == 0 {
					_ = w.rt.SessionClosed(context.Background(), delivery.SessionClosed{UID: ack.UID, SessionID: ack.SessionID})
				} else {
					_ = w.rt.Recvack(context.Background(), ack)
				}
			}
		}
	}()

	deadline := time.Now().Add(c31Generous)
	var prod sync.WaitGroup
	for c := range w.plansByCh {
		prod.Add(1)
		go func(list []*c31PlanSpec) {
			defer prod.Done()
			for _, spec := range list {
				for attempt := 0; ; attempt++ {
					// the controller clears the flag before a lifecycle action
					// and sets it again after the restart
					for !w.open.Load() {
						if time.Now().After(deadline) {
							return
						}
						time.Sleep(20 * time.Microsecond)
					}
					ctx := context.Background()
					if attempt == 0 && spec.cancelledCtx {
						c, cancel := context.WithCancel(ctx)
						cancel()
						ctx = c
					}
					lo := w.gen.Load()
					err := w.rt.EnqueueRecipientDeliveryPlan(ctx, spec.plan)
					hi := w.gen.Load()
					w.attempts.Add(1)
					if err == nil {
						spec.accepted, spec.genLo, spec.genHi = true, lo, hi
						break
					}
					spec.rejections++
					if attempt == 0 && spec.cancelledCtx {
						continue // resubmit with a live context
					}
					if errors.Is(err, delivery.ErrRuntimeClosed) && spec.retryClosed && spec.rejections < 6 {
						time.Sleep(20 * time.Microsecond)
						continue // ownership was not transferred: resubmit the same plan
					}
					break // plan dropped by the producer
				}
			}
		}(w.plansByCh[c])
	}
	prodDone := make(chan struct{})
	go func() { prod.Wait(); close(prodDone) }()

	generous := func() (context.Context, context.CancelFunc) {
		return context.WithDeadline(context.Background(), deadline)
	}
	termCount := func() int { w.mu.Lock(); defer w.mu.Unlock(); return len(w.terminals) }

actions:
	for _, act := range w.actions {
		fired := false
		for !fired {
			select {
			case <-prodDone:
				fired = true
			default:
				if w.attempts.Load() >= act.at {
					fired = true
				} else if time.Now().After(deadline) {
					return "watchdog: producers made no progress"
				} else {
					time.Sleep(20 * time.Microsecond)
				}
			}
		}
		select {
		case <-prodDone:
			// producers finished first; skip the remaining script
			break actions
		default:
		}
		w.open.Store(false)
		g := w.gen.Load()
		switch act.kind {
		case c31ActStop:
			ctx, cancel := generous()
			err := w.rt.Stop(ctx)
			cancel()
			if err != nil {
				return "watchdog: Stop: " + err.Error()
			}
		case c31ActHardStop:
			w.mu.Lock()
			w.hardGen[g] = true
			w.mu.Unlock()
			dead, cancelDead := context.WithCancel(context.Background())
			cancelDead()
			_ = w.rt.Stop(dead)
			ctx, cancel := generous()
			err := w.rt.Stop(ctx)
			cancel()
			if err != nil {
				return "watchdog: Stop after hard stop: " + err.Error()
			}
		case c31ActQuiesce, c31ActQuiesceDetached:
			stopSweep := make(chan struct{})
			var sw sync.WaitGroup
			sw.Add(1)
			go func() { defer sw.Done(); w.sweepSessions(stopSweep) }()
			if act.kind == c31ActQuiesceDetached {
				dead, cancelDead := context.WithCancel(context.Background())
				cancelDead()
				_ = w.rt.Quiesce(dead) // only stops waiting; the drain continues
			}
			ctx, cancel := generous()
			err := w.rt.Quiesce(ctx)
			close(stopSweep)
			sw.Wait()
			if err != nil {
				cancel()
				return "watchdog: Quiesce: " + err.Error()
			}
			err = w.rt.Stop(ctx)
			cancel()
			if err != nil {
				return "watchdog: Stop after Quiesce: " + err.Error()
			}
		}
		*cuts = append(*cuts, termCount())
		w.gen.Add(1)
		if err := w.rt.Start(context.Background()); err != nil {
			return "restart failed: " + err.Error()
		}
		w.open.Store(true)
	}
	select {
	case <-prodDone:
	case <-time.After(time.Until(deadline)):
		return "watchdog: producers did not finish"
	}
	ctx, cancel := generous()
	err := w.rt.Stop(ctx)
	cancel()
	close(fbStop)
	fbWG.Wait()
	if err != nil {
		return "watchdog: final Stop: " + err.Error()
	}
	return ""
}

// ---------------------------------------------------------------- oracle

type c31Span struct {
	minStart, maxRet int64
	plan             uint64
}

type c31Stats struct {
	retryable, terminal, offlineUIDs, maxChAccepted int
}

func c31MultisetSub(a, b []onlinedelivery.Route) bool {
	m := map[onlinedelivery.Route]int{}
	for _, x := range b {
		m[x]++
	}
	for _, x := range a {
		if m[x] == 0 {
			return false
		}
		m[x]--
	}
	return true
}

func c31Check(r *verifkit.Run, w *c31World, cuts []int) c31Stats {
	var st c31Stats
	w.mu.Lock()
	events := w.events
	terminals := w.terminals
	w.mu.Unlock()

	byPlan := map[uint64][]*c31Event{}
	for i := range events {
		ev := &events[i]
		byPlan[ev.Plan] = append(byPlan[ev.Plan], ev)
	}
	relaxed := func(spec *c31PlanSpec) bool {
		for g := spec.genLo; g <= spec.genHi; g++ {
			if w.hardGen[g] {
				return true
			}
		}
		return false
	}

	// unknown plan ids
	for id, evs := range byPlan {
		if w.specs[id] == nil {
			r.Violation("effect-for-unknown-plan:"+evs[0].Kind, evs[0])
		}
	}

	order := map[c31SessionKey]map[int]map[int]*c31Span{} // session -> channel -> ordinal
	accepted := 0
	wantTerm := map[string]int{}
	for c, list := range w.plansByCh {
		chAccepted := 0
		for _, spec := range list {
			evs := byPlan[spec.id]
			if !spec.accepted {
				if len(evs) > 0 {
					r.Count("effects_of_rejected_plan", 1) // not covered by the statement
				}
				r.Count("plans.rejected", 1)
				continue
			}
			accepted++
			chAccepted++
			r.Eval(1)
			r.Count("plans.accepted", 1)
			if spec.durable {
				r.Count("plans.accepted.durable", 1)
			}
			wantTerm[fmt.Sprintf("%v/%d", spec.durable, spec.plan.RecipientCount())]++
			rel := relaxed(spec)
			if rel {
				r.Count("plans.relaxed_hard_stop", 1)
			}
			ch := w.channels[c]

			pushes := map[onlinedelivery.Route]int{}
			retries := map[onlinedelivery.Route]int{}
			remote := map[uint64][]*c31Event{}
			var offline []*c31Event
			presence := 0
			for _, ev := range evs {
				switch ev.Kind {
				case "presence":
					presence++
				case "offline":
					offline = append(offline, ev)
				case "write", "push":
					if ev.Channel != ch.id || ev.ChType != ch.ty || ev.Seq != spec.plan.Event.MessageSeq {
						r.Violation("push-envelope-mismatch:"+ev.Kind, map[string]any{"plan": spec.id, "want_channel": ch.id, "want_type": ch.ty, "want_seq": spec.plan.Event.MessageSeq, "event": ev})
					}
					if ev.Kind == "write" {
						r.Count("writes.local", 1)
						if ev.Owner != c31LocalNode {
							r.Violation("write-owner-mismatch", ev)
						}
					} else {
						r.Count("pushes.remote", 1)
						remote[ev.Owner] = append(remote[ev.Owner], ev)
						if ev.Owner == c31LocalNode {
							r.Violation("remote-push-to-local-owner", ev)
						}
						if ev.CallErr {
							r.Count("pushes.remote.error", 1)
						}
						if ev.Panicked {
							r.Count("pushes.remote.panic", 1)
						}
					}
					if ev.Panicked && ev.Kind == "write" {
						r.Count("writes.local.panic", 1)
					}
					st.terminal += ev.Dropped
					r.Count("routes.accepted", ev.Accepted)
					r.Count("routes.dropped", ev.Dropped)
					r.Count("routes.retryable", len(ev.Retry))
					st.retryable += len(ev.Retry)
					for _, route := range ev.Routes {
						// exact-target clause
						if !spec.returned[route] {
							r.Violation("push-to-unresolved-route:"+ev.Kind, map[string]any{"plan": spec.id, "route": route, "event": ev, "resolved": c31Keys(spec.returned)})
						}
						if route.OwnerNodeID != ev.Owner {
							r.Violation("push-owner-mismatch:"+ev.Kind, map[string]any{"plan": spec.id, "route": route, "event": ev})
						}
						pushes[route]++
						key := c31SessionKey{Owner: ev.Owner, UID: route.UID, Session: route.SessionID}
						if order[key] == nil {
							order[key] = map[int]map[int]*c31Span{}
						}
						if order[key][c] == nil {
							order[key][c] = map[int]*c31Span{}
						}
						sp := order[key][c][spec.ordinal]
						if sp == nil {
							sp = &c31Span{minStart: ev.Start, maxRet: ev.Ret, plan: spec.id}
							order[key][c][spec.ordinal] = sp
						}
						if ev.Start < sp.minStart {
							sp.minStart = ev.Start
						}
						if ev.Ret > sp.maxRet {
							sp.maxRet = ev.Ret
						}
					}
					for _, route := range ev.Retry {
						retries[route]++
					}
				}
			}
			r.Count("presence.calls", presence)

			// coverage + retry narrowing per exact route
			for route, m := range spec.resolved {
				wn := pushes[route]
				if wn > m+retries[route] {
					r.Violation("retry-widened:route-pushed-without-retryable-result", map[string]any{"plan": spec.id, "route": route, "pushes": wn, "multiplicity": m, "retryable_results": retries[route], "events": evs})
				}
				if wn > m*w.maxAttempts {
					r.Violation("retry-exceeds-max-attempts", map[string]any{"plan": spec.id, "route": route, "pushes": wn, "multiplicity": m, "max_attempts": w.maxAttempts})
				}
				if spec.durable && !rel && wn < m {
					sig := "durable-recipient-route-not-pushed"
					if presence == 0 {
						sig = "accepted-plan-not-executed"
					}
					r.Violation(sig, map[string]any{"plan": spec.id, "route": route, "pushes": wn, "multiplicity": m, "events": evs})
				}
				r.Count("routes.resolved", m)
			}
			for route := range spec.suppressed {
				r.Count("routes.sender_suppressed", 1)
				if spec.resolved[route] == 0 && pushes[route] > 0 {
					r.Count("routes.sender_suppressed_but_pushed", 1) // not asserted either way
				}
			}
			// call-level narrowing for remote owners
			for owner, calls := range remote {
				sort.Slice(calls, func(i, j int) bool { return calls[i].Start < calls[j].Start })
				chain := 1
				for k := 1; k < len(calls); k++ {
					prev := calls[k-1]
					if len(prev.Retry) > 0 && chain < w.maxAttempts {
						chain++
						r.Count("retries.remote_calls", 1)
						if !c31MultisetSub(calls[k].Routes, prev.Retry) {
							r.Violation("retry-widened:remote-attempt-not-subset-of-retryable", map[string]any{"plan": spec.id, "owner": owner, "attempt": chain, "prev": prev, "next": calls[k]})
						}
					} else {
						chain = 1
						if len(calls[k].Routes) > w.batchSize {
							r.Count("remote_batch_over_bound", 1)
						}
					}
				}
			}
			// offline clause
			if !spec.durable {
				if len(offline) > 0 {
					r.Violation("transient-plan-offline-effect", map[string]any{"plan": spec.id, "events": offline})
				}
			} else {
				if len(offline) > 1 {
					r.Violation("durable-plan-multiple-offline-batches", map[string]any{"plan": spec.id, "events": offline})
				}
				seen := map[string]int{}
				for _, ev := range offline {
					r.Count("offline.batches", 1)
					for _, uid := range ev.UIDs {
						seen[uid]++
						st.offlineUIDs++
						r.Count("offline.uids", 1)
					}
				}
				for uid, n := range seen {
					if n > 1 {
						r.Violation("recipient-reported-offline-twice", map[string]any{"plan": spec.id, "uid": uid, "times": n, "events": offline})
					}
					if !spec.expOffline[uid] {
						r.Violation("recipient-with-online-route-or-unresolved-reported-offline", map[string]any{"plan": spec.id, "uid": uid, "expected_offline": c31StrKeys(spec.expOffline), "events": offline})
					}
				}
				if !rel {
					for uid := range spec.expOffline {
						if seen[uid] == 0 {
							sig := "durable-offline-recipient-not-reported"
							if presence == 0 {
								sig = "accepted-plan-not-executed"
							}
							r.Violation(sig, map[string]any{"plan": spec.id, "uid": uid, "expected_offline": c31StrKeys(spec.expOffline), "events": offline})
						}
					}
				}
			}
		}
		if chAccepted > st.maxChAccepted {
			st.maxChAccepted = chAccepted
		}
	}

	// order clause: for one (session, channel) every invocation for an earlier
	// accepted plan returned before the first invocation for a later one.
	for key, chans := range order {
		for c, spans := range chans {
			ords := make([]int, 0, len(spans))
			for o := range spans {
				ords = append(ords, o)
			}
			sort.Ints(ords)
			r.Count("order.session_channel_keys", 1)
			for i := 1; i < len(ords); i++ {
				a, b := spans[ords[i-1]], spans[ords[i]]
				r.Count("order.adjacent_pairs", 1)
				if !(a.maxRet < b.minStart) {
					r.Violation("later-seq-pushed-before-earlier-finished", map[string]any{
						"session": key, "channel": w.channels[c].id, "channel_type": w.channels[c].ty,
						"earlier_ordinal": ords[i-1], "earlier_plan": a.plan, "earlier_last_return": a.maxRet,
						"later_ordinal": ords[i], "later_plan": b.plan, "later_first_call": b.minStart,
						"workers": w.workers,
					})
				}
			}
		}
	}

	// terminal observation for every accepted plan after Stop returned nil
	gotTerm := map[string]int{}
	for _, t := range terminals {
		gotTerm[fmt.Sprintf("%v/%d", t.Durable, t.Recipients)]++
		r.Count("terminal."+t.Result, 1)
	}
	if len(terminals) != accepted {
		r.Violation("terminal-observations-differ-from-accepted-plans", map[string]any{"accepted": accepted, "terminal_observations": len(terminals)})
	} else {
		for k, n := range wantTerm {
			if gotTerm[k] != n {
				r.Violation("terminal-observation-shape-mismatch", map[string]any{"mode/recipients": k, "accepted": n, "observed": gotTerm[k]})
			}
		}
	}
	// intermediate cuts: after the g-th clean Stop/Quiesce every plan that was
	// certainly accepted in a generation <= g is terminal.
	for g, tc := range cuts {
		sure, maybe := 0, 0
		for _, list := range w.plansByCh {
			for _, spec := range list {
				if !spec.accepted {
					continue
				}
				if spec.genHi <= int64(g) {
					sure++
				}
				if spec.genLo <= int64(g) {
					maybe++
				}
			}
		}
		if tc < sure || tc > maybe {
			r.Violation("terminal-observations-at-stop-cut", map[string]any{"generation": g, "terminal_observations": tc, "accepted_for_sure": sure, "accepted_at_most": maybe})
		}
		r.Count("lifecycle.cuts_checked", 1)
	}
	return st
}

func c31Keys(m map[onlinedelivery.Route]bool) []onlinedelivery.Route {
	out := make([]onlinedelivery.Route, 0, len(m))
	for k := range m {
		out = append(out, k)
	}
	sort.Slice(out, func(i, j int) bool {
		if out[i].UID != out[j].UID {
			return out[i].UID < out[j].UID
		}
		return out[i].SessionID < out[j].SessionID
	})
	return out
}

func c31StrKeys(m map[string]bool) []string {
	out := make([]string, 0, len(m))
	for k := range m {
		out = append(out, k)
	}
	sort.Strings(out)
	return out
}

func c31Bucket(n int) string {
	switch {
	case n == 0:
		return "0"
	case n < 4:
		return "1-3"
	case n < 16:
		return "4-15"
	case n < 64:
		return "16-63"
	default:
		return "64+"
	}
}

func TestVerifC31(t *testing.T) {
	r := verifkit.Start(t, "C31", "main")
	defer r.Finish()
	r.SetRule("One case = one delivery.Runtime life (Workers 1-8, QueueSize 1-1024, owner batch 1-256, retry attempts 1-4) fed with a generated plan stream over 1-8 channels (same id under two types included), durable and transient plans with duplicate recipient rows, 1-3 target groups, presence answers fixed per (plan, uid) (online on local owner 1 and remote owners 2-4, no route, per-target error, truncated result), scripted per-route outcomes accepted/retryable/terminal/stale/panic, remote transport errors and panics, latencies, observer panics, RECVACK/SessionClosed feedback, and 0-3 lifecycle actions (Stop, Quiesce, Quiesce with expired context then join, Stop with expired context) at PRNG enqueue counts followed by restart. Non-trivial = >=2 workers, >=1 channel with >=20 accepted plans, >=1 retryable and >=1 terminal route result, >=1 offline recipient; distinct by (workers, channels, lifecycle script, queue/batch/attempt configuration, bucketed counts).")
	r.Assume("Presence answers are one decision per (plan, uid): a uid is never online in one target group and offline in another of the same plan.")
	r.Assume("Fake adapters are well behaved: a remote owner classifies only routes it was sent; a failed or panicking transport call leaves every submitted route eligible for retry (as the runtime documents).")
	r.Assume("PlanTimeout is set to 1h and MaxPendingPerSession is unlimited so that neither cuts a plan short; plans accepted in a generation that was stopped with an expired context are exempt from the coverage lower bounds.")

	n := r.N(220, 2400)
	for i := 0; i < n; i++ {
		if r.Skip(i) {
			continue
		}
		rng := r.Rand(31, uint64(i))
		w := c31Generate(rng, r.Thorough())
		script := ""
		for _, a := range w.actions {
			script += c31ActNames[a.kind] + ","
		}
		total := 0
		for _, l := range w.plansByCh {
			total += len(l)
		}
		r.BeginCase(i, fmt.Sprintf("workers=%d channels=%d plans=%d queue=%d batch=%d attempts=%d life=[%s]", w.workers, len(w.channels), total, w.queueSize, w.batchSize, w.maxAttempts, script))
		var cuts []int
		reason := ""
		if !verifkit.Watchdog(c31Generous+time.Minute, func() {
			r.Guard("drive", i, func() { reason = c31Drive(w, &cuts) })
		}) {
			reason = "watchdog: case did not finish"
		}
		if reason != "" {
			r.Inconclusive(fmt.Sprintf("case %d: %s", i, reason))
			r.Count("cases.inconclusive", 1)
			if r.NumViolations() > 0 {
				break
			}
			return // goroutines of the abandoned runtime may still be running
		}
		st := c31Check(r, w, cuts)
		r.Count("cases", 1)
		for _, a := range w.actions[:len(cuts)] {
			r.Count("lifecycle."+c31ActNames[a.kind], 1)
		}
		r.Max("max_events_per_case", len(w.events))
		r.Max("max_plans_per_case", total)
		if w.workers >= 2 && st.maxChAccepted >= 20 && st.retryable >= 1 && st.terminal >= 1 && st.offlineUIDs >= 1 {
			r.Nontrivial(fmt.Sprintf("w%d|c%d|q%d|b%d|a%d|oc%d|life=%s|retry=%s|term=%s|off=%s", w.workers, len(w.channels), w.queueSize, w.batchSize, w.maxAttempts, w.ownerConc, script, c31Bucket(st.retryable), c31Bucket(st.terminal), c31Bucket(st.offlineUIDs)))
		}
		if r.WantSample() && i%17 == 3 {
			r.Sample(map[string]any{"case": i, "workers": w.workers, "channels": len(w.channels), "plans": total, "lifecycle": script,
				"events": len(w.events), "first_events": w.events[:min(6, len(w.events))]})
		}
		if r.NumViolations() >= 10 {
			break
		}
	}
}
