//go:build verif

package delivery_test

// Reference model for C32, written from the property statement and the method
// documentation of AckTracker (not from its data structures):
//
//   state  = map (uid, session, message) -> { committed snapshot?, set of
//            in-flight attempts (token handle, metadata) }
//   PendingCount = number of keys in the map.
//   Bind*      adds one attempt to the key (creating it unless the per-session
//              limit of distinct keys is reached; a key that already exists is
//              never rejected by the limit). DeliveredAt 0 means "now".
//   FinishBind moves exactly that attempt into the committed snapshot (last
//              successful finish wins); stale/foreign/zero tokens are no-ops.
//   CancelBind removes exactly that attempt; the key disappears only if no
//              committed snapshot and no other attempt remains.
//   Ack        removes exactly the key (uid, session, message).
//   SessionClosed removes exactly the keys of (uid, session).
//   Expire(ttl) removes exactly the keys all of whose candidates (committed
//              snapshot and in-flight attempts) have DeliveredAt <= now -
//              ceil(ttl in seconds); ttl <= 0 removes nothing. This is the
//              documented "all reach the ttl cutoff" rule, second granularity.
//   Reset      removes everything.
//
// Returned metadata: for a committed key it must be the snapshot of the last
// successful finish; for a key with only in-flight attempts it must be the
// metadata of one of those attempts (which one is an implementation choice).

import (
	"fmt"
	"time"

	"github.com/WuKongIM/WuKongIM/internal/runtime/delivery"
)

type c32P = delivery.PendingRecvAck

type c32Key struct {
	UID  string `json:"uid"`
	Sess uint64 `json:"sess"`
	Msg  uint64 `json:"msg"`
}

func c32KeyOf(p c32P) c32Key { return c32Key{p.UID, p.SessionID, p.MessageID} }
func (k c32Key) valid() bool { return k.UID != "" && k.Sess != 0 && k.Msg != 0 }
func (k c32Key) less(o c32Key) bool {
	if k.UID != o.UID {
		return k.UID < o.UID
	}
	if k.Sess != o.Sess {
		return k.Sess < o.Sess
	}
	return k.Msg < o.Msg
}

type c32Att struct {
	H int
	P c32P
}

type c32Entry struct {
	K         c32Key
	Committed bool
	Snap      c32P
	Atts      []c32Att // sorted by H
}

type c32State struct{ E []c32Entry } // sorted by key

func (s *c32State) find(k c32Key) int {
	for i := range s.E {
		if s.E[i].K == k {
			return i
		}
	}
	return -1
}

func (s *c32State) clone() *c32State {
	n := &c32State{E: make([]c32Entry, len(s.E))}
	copy(n.E, s.E)
	for i := range n.E {
		if len(n.E[i].Atts) > 0 {
			n.E[i].Atts = append([]c32Att(nil), n.E[i].Atts...)
		}
	}
	return n
}

func (s *c32State) sessionKeys(uid string, sess uint64) int {
	n := 0
	for i := range s.E {
		if s.E[i].K.UID == uid && s.E[i].K.Sess == sess {
			n++
		}
	}
	return n
}

func (s *c32State) insert(e c32Entry) int {
	i := 0
	for i < len(s.E) && s.E[i].K.less(e.K) {
		i++
	}
	s.E = append(s.E, c32Entry{})
	copy(s.E[i+1:], s.E[i:])
	s.E[i] = e
	return i
}

func (s *c32State) remove(i int) { s.E = append(s.E[:i], s.E[i+1:]...) }

func (e *c32Entry) addAtt(a c32Att) {
	i := 0
	for i < len(e.Atts) && e.Atts[i].H < a.H {
		i++
	}
	e.Atts = append(e.Atts, c32Att{})
	copy(e.Atts[i+1:], e.Atts[i:])
	e.Atts[i] = a
}

func (e *c32Entry) takeAtt(h int) (c32Att, bool) {
	for i := range e.Atts {
		if e.Atts[i].H == h {
			a := e.Atts[i]
			e.Atts = append(e.Atts[:i], e.Atts[i+1:]...)
			return a, true
		}
	}
	return c32Att{}, false
}

// metaOK: is p acceptable as the metadata returned for this key?
func (e *c32Entry) metaOK(p c32P) bool {
	if e.Committed {
		return p == e.Snap
	}
	for i := range e.Atts {
		if e.Atts[i].P == p {
			return true
		}
	}
	return false
}

// newestDelivery is the freshest candidate of the key.
func (e *c32Entry) newestDelivery() int64 {
	var m int64
	first := true
	if e.Committed {
		m, first = e.Snap.DeliveredAt, false
	}
	for i := range e.Atts {
		if first || e.Atts[i].P.DeliveredAt > m {
			m, first = e.Atts[i].P.DeliveredAt, false
		}
	}
	return m
}

func c32StateEqual(a, b *c32State) bool {
	if len(a.E) != len(b.E) {
		return false
	}
	for i := range a.E {
		x, y := &a.E[i], &b.E[i]
		if x.K != y.K || x.Committed != y.Committed || len(x.Atts) != len(y.Atts) {
			return false
		}
		if x.Committed && x.Snap != y.Snap {
			return false
		}
		for j := range x.Atts {
			if x.Atts[j] != y.Atts[j] {
				return false
			}
		}
	}
	return true
}

func (s *c32State) describe() string {
	out := ""
	for i := range s.E {
		e := &s.E[i]
		out += fmt.Sprintf("{%s/%d/%d", e.K.UID, e.K.Sess, e.K.Msg)
		if e.Committed {
			out += fmt.Sprintf(" C@%d#%d", e.Snap.DeliveredAt, e.Snap.MessageSeq)
		}
		for _, a := range e.Atts {
			out += fmt.Sprintf(" t%d@%d", a.H, a.P.DeliveredAt)
		}
		out += "}"
	}
	return out
}

// ---- operations ------------------------------------------------------------

const (
	c32OpBind   = "bind"   // BindResult / BindBatch / first half of Bind
	c32OpFinish = "finish" // FinishBind / FinishBindBatch / second half of Bind
	c32OpCancel = "cancel"
	c32OpAck    = "ack"
	c32OpClose  = "close"
	c32OpExpire = "expire"
	c32OpReset  = "reset"
	c32OpCount  = "count"
)

type c32BindItem struct {
	P c32P `json:"p"`
	H int  `json:"h"`
}
type c32FinItem struct {
	K c32Key `json:"k"`
	H int    `json:"h"`
}

type c32In struct {
	Op    string        `json:"op"`
	API   string        `json:"api"` // real method that produced this (sub-)operation
	Now   int64         `json:"now,omitempty"`
	Binds []c32BindItem `json:"binds,omitempty"`
	Fins  []c32FinItem  `json:"fins,omitempty"`
	K     c32Key        `json:"k,omitempty"` // cancel / ack / close (Msg unused) / expire session filter
	H     int           `json:"h,omitempty"`
	TTL   time.Duration `json:"ttl,omitempty"`
	// OnlySess restricts an expire sub-operation to the session in K (used only
	// when a multi-shard Expire is decomposed for the linearizability check).
	OnlySess bool `json:"only_sess,omitempty"`
}

const c32Unobserved = -1

type c32Out struct {
	Bound    []bool `json:"bound,omitempty"`
	Added    int    `json:"added"`    // c32Unobserved if the API does not expose it
	PC       int    `json:"pc"`       // PendingCount carried by the result; c32Unobserved if none
	Finished int    `json:"finished"` // c32Unobserved if the API does not expose it
	Canceled bool   `json:"canceled,omitempty"`
	Removed  bool   `json:"removed,omitempty"`
	OK       bool   `json:"ok,omitempty"`
	P        c32P   `json:"p,omitempty"`
	List     []c32P `json:"list,omitempty"`
	N        int    `json:"n,omitempty"`
}

// c32Apply checks that out is what the model allows for in at state st and
// advances st. It returns a non-empty signature on a mismatch (st is then
// unspecified) and an outcome class for the evidence counters.
func c32Apply(st *c32State, maxPer int, in c32In, out c32Out) (sig, class string) {
	switch in.Op {
	case c32OpBind:
		if len(out.Bound) != len(in.Binds) {
			return "bind:result-length", ""
		}
		added, refreshed, rejected, invalid := 0, 0, 0, 0
		for i, it := range in.Binds {
			k := c32KeyOf(it.P)
			want := false
			if !k.valid() {
				invalid++
			} else {
				p := it.P
				if p.DeliveredAt == 0 {
					p.DeliveredAt = in.Now
				}
				idx := st.find(k)
				if idx < 0 && maxPer > 0 && st.sessionKeys(k.UID, k.Sess) >= maxPer {
					rejected++
				} else {
					want = true
					if idx < 0 {
						idx = st.insert(c32Entry{K: k})
						added++
					} else {
						refreshed++
					}
					st.E[idx].addAtt(c32Att{H: it.H, P: p})
				}
			}
			if out.Bound[i] != want {
				if want {
					return "bind:rejected-but-model-accepts", ""
				}
				return "bind:accepted-but-model-rejects", ""
			}
		}
		if out.Added != c32Unobserved && out.Added != added {
			return "bind:added-flag", ""
		}
		if out.PC != c32Unobserved && out.PC != len(st.E) {
			return "bind:returned-pending-count", ""
		}
		switch {
		case refreshed > 0 && added > 0:
			class = "added+refresh"
		case refreshed > 0:
			class = "refresh"
		case added > 0:
			class = "added"
		case rejected > 0:
			class = "limit-rejected"
		default:
			class = "invalid"
		}
		return "", class

	case c32OpFinish:
		fin := 0
		for _, it := range in.Fins {
			if !it.K.valid() || it.H == 0 {
				continue
			}
			idx := st.find(it.K)
			if idx < 0 {
				continue
			}
			a, ok := st.E[idx].takeAtt(it.H)
			if !ok {
				continue
			}
			st.E[idx].Committed = true
			st.E[idx].Snap = a.P
			fin++
		}
		if out.Finished != c32Unobserved && out.Finished != fin {
			if out.Finished > fin {
				return "finish:stale-token-accepted", ""
			}
			return "finish:live-token-refused", ""
		}
		if fin > 0 {
			return "", "committed"
		}
		return "", "noop"

	case c32OpCancel:
		canceled, removed := false, false
		class = "noop"
		if in.K.valid() && in.H != 0 {
			if idx := st.find(in.K); idx >= 0 {
				if _, ok := st.E[idx].takeAtt(in.H); ok {
					canceled = true
					e := &st.E[idx]
					switch {
					case e.Committed:
						class = "kept-committed"
					case len(e.Atts) > 0:
						class = "kept-other-attempt"
					default:
						st.remove(idx)
						removed = true
						class = "removed-last"
					}
				}
			}
		}
		if out.Canceled != canceled {
			return "cancel:canceled-flag", ""
		}
		if out.Removed != removed {
			if out.Removed {
				return "cancel:removed-key-that-must-survive", ""
			}
			return "cancel:kept-key-that-must-go", ""
		}
		if out.PC != c32Unobserved && out.PC != len(st.E) {
			return "cancel:returned-pending-count", ""
		}
		return "", class

	case c32OpAck:
		idx := -1
		if in.K.valid() {
			idx = st.find(in.K)
		}
		if idx < 0 {
			if out.OK {
				return "ack:hit-on-absent-key", ""
			}
			if out.P != (c32P{}) {
				return "ack:metadata-on-miss", ""
			}
			return "", "miss"
		}
		if !out.OK {
			return "ack:miss-on-pending-key", ""
		}
		if c32KeyOf(out.P) != in.K {
			return "ack:returned-other-identity", ""
		}
		e := &st.E[idx]
		if !e.metaOK(out.P) {
			return "ack:metadata", ""
		}
		class = "hit-tentative"
		if e.Committed {
			class = "hit-committed"
			if len(e.Atts) > 0 {
				class = "hit-committed+inflight"
			}
		}
		st.remove(idx)
		return "", class

	case c32OpClose:
		var want []int
		if in.K.UID != "" && in.K.Sess != 0 {
			for i := range st.E {
				if st.E[i].K.UID == in.K.UID && st.E[i].K.Sess == in.K.Sess {
					want = append(want, i)
				}
			}
		}
		if s := c32CheckRemoved(st, want, out.List, "close"); s != "" {
			return s, ""
		}
		for i := len(want) - 1; i >= 0; i-- {
			st.remove(want[i])
		}
		if len(want) == 0 {
			return "", "empty"
		}
		return "", "removed"

	case c32OpExpire:
		var want []int
		boundary := false
		if in.TTL > 0 {
			ttlSec := int64((in.TTL + time.Second - 1) / time.Second)
			cutoff := in.Now - ttlSec
			for i := range st.E {
				e := &st.E[i]
				if in.OnlySess && (e.K.UID != in.K.UID || e.K.Sess != in.K.Sess) {
					continue
				}
				nd := e.newestDelivery()
				if nd == cutoff || nd == cutoff+1 {
					boundary = true
				}
				if nd <= cutoff {
					want = append(want, i)
				}
			}
		}
		if s := c32CheckRemoved(st, want, out.List, "expire"); s != "" {
			return s, ""
		}
		for i := len(want) - 1; i >= 0; i-- {
			st.remove(want[i])
		}
		class = "none"
		if len(want) > 0 {
			class = "removed"
		}
		if boundary {
			class += "+boundary"
		}
		return "", class

	case c32OpReset:
		st.E = nil
		return "", "reset"

	case c32OpCount:
		if out.N != len(st.E) {
			if out.N > len(st.E) {
				return "pending-count-above-distinct-outstanding", ""
			}
			return "pending-count-below-distinct-outstanding", ""
		}
		return "", "count"
	}
	return "harness:unknown-op", ""
}

// c32CheckRemoved compares a returned removal list with the exact set of keys
// the model removes (as sets; order is unspecified).
func c32CheckRemoved(st *c32State, want []int, got []c32P, op string) string {
	seen := make(map[c32Key]bool, len(got))
	for _, p := range got {
		k := c32KeyOf(p)
		if seen[k] {
			return op + ":same-key-removed-twice"
		}
		seen[k] = true
		idx := -1
		for _, w := range want {
			if st.E[w].K == k {
				idx = w
				break
			}
		}
		if idx < 0 {
			if st.find(k) >= 0 {
				return op + ":removed-key-that-must-survive"
			}
			return op + ":removed-unknown-key"
		}
		if !st.E[idx].metaOK(p) {
			return op + ":metadata"
		}
	}
	if len(got) < len(want) {
		return op + ":kept-key-that-must-go"
	}
	return ""
}
