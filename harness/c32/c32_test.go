//go:build verif

package delivery_test

// C32 — "The number of pending receive acknowledgements always equals the
// number of distinct outstanding (session, message) deliveries. An
// acknowledgement removes only the matching delivery, rolling back a failed
// re-delivery never removes an earlier successful one, closing a session
// removes exactly that session's entries, and expiry removes only entries idle
// past the TTL."
//
// Black box against the exported AckTracker API with a logical clock.
//
// Unit "seq": PRNG histories over 2-4 sessions x 2-6 message ids; after every
// call the return value is compared with the reference model (c32_model_test.go)
// and PendingCount() with the model's number of keys; every history ends with a
// drain (ack every key of the universe, close every session, count == 0, and —
// with a per-session limit — re-fill each session up to the limit) so that a
// leaked index entry becomes visible.
//
// Unit "conc": many short histories (<= ~40 model operations), 2-6 goroutines,
// call/return ticks from one atomic counter, checked by porcupine against the
// same model. Documented non-atomic calls are decomposed into the steps the
// documentation promises, all sharing the call's [call, return] interval
// (sound: the real order is one of the orders porcupine may pick):
//   * Bind         = BindResult ; FinishBind ("identity cleanup may win between
//                    reserve and finish")
//   * BindBatch    = bind step + PendingCount read (the count is read after
//                    the shard locks are released). Concurrent batches are kept
//                    to one session so the bind step is one shard-atomic step.
//   * Expire       = one step per session of the universe (shards are locked
//                    one after the other).
//   * Reset        is only used while no other call is in flight (its doc
//                    requires that).
// The logical clock does not move during the concurrent section (BindResult
// reads the clock before taking the shard lock, so a concurrent clock step is
// not linearizable by construction and says nothing about the property).

import (
	"fmt"
	"hash/fnv"
	"math/rand/v2"
	"runtime"
	"runtime/debug"
	"sort"
	"sync"
	"sync/atomic"
	"testing"
	"time"

	"github.com/WuKongIM/WuKongIM/internal/runtime/delivery"
	"github.com/WuKongIM/WuKongIM/pkg/verifkit"
	"github.com/anishathalye/porcupine"
)

type c32Sess struct {
	UID  string
	Sess uint64
}

var c32SessPool = []c32Sess{{"u1", 1}, {"u1", 2}, {"u2", 1}, {"u2", 2}, {"u3", 9}, {"u1", 9}, {"u2", 17}, {"u3", 1 << 40}}
var c32MsgPool = []uint64{1, 2, 3, 1000, 1 << 40, ^uint64(0)}
var c32TTLs = []time.Duration{0, -time.Second, 500 * time.Millisecond, time.Second, 1500 * time.Millisecond, 2 * time.Second, 3 * time.Second, 5 * time.Second}

type c32Sub struct {
	In  c32In  `json:"in"`
	Out c32Out `json:"out"`
}

// c32Caller performs real calls and translates them to model (sub-)operations.
type c32Caller struct {
	tr       *delivery.AckTracker
	now      *atomic.Int64
	universe []c32Sess
	conc     bool // decompose documented non-atomic calls
}

func (c *c32Caller) bindResult(p c32P, h int) (delivery.AckBindToken, []c32Sub, string) {
	now := c.now.Load()
	res := c.tr.BindResult(p)
	direct := ""
	if res.Bound != res.Token.Valid() {
		direct = "bindresult:bound-flag-disagrees-with-token"
	}
	if res.Added && !res.Bound {
		direct = "bindresult:added-without-bound"
	}
	added := 0
	if res.Added {
		added = 1
	}
	return res.Token, []c32Sub{{
		In:  c32In{Op: c32OpBind, API: "BindResult", Now: now, Binds: []c32BindItem{{P: p, H: h}}},
		Out: c32Out{Bound: []bool{res.Bound}, Added: added, PC: res.PendingCount, Finished: c32Unobserved},
	}}, direct
}

func (c *c32Caller) bind(p c32P, h int) (bool, []c32Sub) {
	now := c.now.Load()
	ok := c.tr.Bind(p)
	subs := []c32Sub{{
		In:  c32In{Op: c32OpBind, API: "Bind", Now: now, Binds: []c32BindItem{{P: p, H: h}}},
		Out: c32Out{Bound: []bool{ok}, Added: c32Unobserved, PC: c32Unobserved, Finished: c32Unobserved},
	}}
	if ok {
		subs = append(subs, c32Sub{
			In:  c32In{Op: c32OpFinish, API: "Bind", Fins: []c32FinItem{{K: c32KeyOf(p), H: h}}},
			Out: c32Out{Added: c32Unobserved, PC: c32Unobserved, Finished: c32Unobserved},
		})
	}
	return ok, subs
}

func (c *c32Caller) bindBatch(ps []c32P, hs []int) ([]delivery.AckBindToken, []c32Sub, string) {
	now := c.now.Load()
	res := c.tr.BindBatch(ps)
	direct := ""
	if len(res.Tokens) != len(ps) {
		direct = "bindbatch:tokens-not-input-aligned"
		toks := make([]delivery.AckBindToken, len(ps))
		copy(toks, res.Tokens)
		res.Tokens = toks
	}
	items := make([]c32BindItem, len(ps))
	bound := make([]bool, len(ps))
	nb := 0
	for i := range ps {
		items[i] = c32BindItem{P: ps[i], H: hs[i]}
		bound[i] = res.Tokens[i].Valid()
		if bound[i] {
			nb++
		}
	}
	if nb != res.Bound && direct == "" {
		direct = "bindbatch:bound-count-disagrees-with-tokens"
	}
	in := c32In{Op: c32OpBind, API: "BindBatch", Now: now, Binds: items}
	if c.conc {
		return res.Tokens, []c32Sub{
			{In: in, Out: c32Out{Bound: bound, Added: res.Added, PC: c32Unobserved, Finished: c32Unobserved}},
			{In: c32In{Op: c32OpCount, API: "BindBatch"}, Out: c32Out{N: res.PendingCount, Added: c32Unobserved, PC: c32Unobserved, Finished: c32Unobserved}},
		}, direct
	}
	return res.Tokens, []c32Sub{{In: in, Out: c32Out{Bound: bound, Added: res.Added, PC: res.PendingCount, Finished: c32Unobserved}}}, direct
}

func (c *c32Caller) finish(p c32P, h int, tok delivery.AckBindToken) []c32Sub {
	ok := c.tr.FinishBind(p, tok)
	n := 0
	if ok {
		n = 1
	}
	return []c32Sub{{
		In:  c32In{Op: c32OpFinish, API: "FinishBind", Fins: []c32FinItem{{K: c32KeyOf(p), H: h}}},
		Out: c32Out{Finished: n, Added: c32Unobserved, PC: c32Unobserved},
	}}
}

func (c *c32Caller) finishBatch(ps []c32P, hs []int, toks []delivery.AckBindToken, idx []int) []c32Sub {
	n := c.tr.FinishBindBatch(ps, toks, idx)
	var fins []c32FinItem
	for _, i := range idx {
		if i < 0 || i >= len(ps) || i >= len(toks) {
			continue
		}
		h := hs[i]
		if !toks[i].Valid() {
			h = 0
		}
		fins = append(fins, c32FinItem{K: c32KeyOf(ps[i]), H: h})
	}
	return []c32Sub{{
		In:  c32In{Op: c32OpFinish, API: "FinishBindBatch", Fins: fins},
		Out: c32Out{Finished: n, Added: c32Unobserved, PC: c32Unobserved},
	}}
}

func (c *c32Caller) cancel(p c32P, h int, tok delivery.AckBindToken) []c32Sub {
	res := c.tr.CancelBind(p, tok)
	if !tok.Valid() {
		h = 0
	}
	return []c32Sub{{
		In:  c32In{Op: c32OpCancel, API: "CancelBind", K: c32KeyOf(p), H: h},
		Out: c32Out{Canceled: res.Canceled, Removed: res.Removed, PC: res.PendingCount, Added: c32Unobserved, Finished: c32Unobserved},
	}}
}

func (c *c32Caller) ack(k c32Key, seq uint64) []c32Sub {
	p, ok := c.tr.Ack(delivery.Recvack{UID: k.UID, SessionID: k.Sess, MessageID: k.Msg, MessageSeq: seq})
	return []c32Sub{{
		In:  c32In{Op: c32OpAck, API: "Ack", K: k},
		Out: c32Out{OK: ok, P: p, Added: c32Unobserved, PC: c32Unobserved, Finished: c32Unobserved},
	}}
}

func (c *c32Caller) closeSess(uid string, sess uint64) []c32Sub {
	l := c.tr.SessionClosed(uid, sess)
	return []c32Sub{{
		In:  c32In{Op: c32OpClose, API: "SessionClosed", K: c32Key{UID: uid, Sess: sess}},
		Out: c32Out{List: l, Added: c32Unobserved, PC: c32Unobserved, Finished: c32Unobserved},
	}}
}

func (c *c32Caller) expire(ttl time.Duration) []c32Sub {
	now := c.now.Load()
	l := c.tr.Expire(ttl)
	if !c.conc {
		return []c32Sub{{
			In:  c32In{Op: c32OpExpire, API: "Expire", Now: now, TTL: ttl},
			Out: c32Out{List: l, Added: c32Unobserved, PC: c32Unobserved, Finished: c32Unobserved},
		}}
	}
	subs := make([]c32Sub, len(c.universe))
	for i, s := range c.universe {
		subs[i] = c32Sub{
			In:  c32In{Op: c32OpExpire, API: "Expire", Now: now, TTL: ttl, OnlySess: true, K: c32Key{UID: s.UID, Sess: s.Sess}},
			Out: c32Out{Added: c32Unobserved, PC: c32Unobserved, Finished: c32Unobserved},
		}
	}
	for _, p := range l {
		j := 0 // an entry of a session outside the universe lands in step 0 and is refuted there
		for i, s := range c.universe {
			if s.UID == p.UID && s.Sess == p.SessionID {
				j = i
				break
			}
		}
		subs[j].Out.List = append(subs[j].Out.List, p)
	}
	return subs
}

func (c *c32Caller) reset() []c32Sub {
	c.tr.Reset()
	return []c32Sub{{In: c32In{Op: c32OpReset, API: "Reset"}, Out: c32Out{Added: c32Unobserved, PC: c32Unobserved, Finished: c32Unobserved}}}
}

func (c *c32Caller) count() []c32Sub {
	n := c.tr.PendingCount()
	return []c32Sub{{In: c32In{Op: c32OpCount, API: "PendingCount"}, Out: c32Out{N: n, Added: c32Unobserved, PC: c32Unobserved, Finished: c32Unobserved}}}
}

// ---- generators ------------------------------------------------------------

type c32Gen struct {
	rng      *rand.Rand
	universe []c32Sess
	msgs     []uint64
	now      *atomic.Int64
}

func c32PickUniverse(rng *rand.Rand, maxSess, maxMsg int) ([]c32Sess, []uint64) {
	ns := 2 + rng.IntN(maxSess-1)
	nm := 2 + rng.IntN(maxMsg-1)
	sp := rng.Perm(len(c32SessPool))
	mp := rng.Perm(len(c32MsgPool))
	var ss []c32Sess
	for _, i := range sp[:ns] {
		ss = append(ss, c32SessPool[i])
	}
	var ms []uint64
	for _, i := range mp[:nm] {
		ms = append(ms, c32MsgPool[i])
	}
	return ss, ms
}

func (g *c32Gen) key() c32Key {
	s := g.universe[g.rng.IntN(len(g.universe))]
	return c32Key{s.UID, s.Sess, g.msgs[g.rng.IntN(len(g.msgs))]}
}

// pending makes the metadata of one delivery attempt for handle h. hostile
// allows invalid identities.
func (g *c32Gen) pending(k c32Key, h int, hostile bool) c32P {
	p := c32P{UID: k.UID, SessionID: k.Sess, MessageID: k.Msg, MessageSeq: uint64(h), ChannelID: fmt.Sprintf("c%d", g.rng.IntN(3)), ChannelType: uint8(1 + g.rng.IntN(2))}
	now := g.now.Load()
	switch g.rng.IntN(8) {
	case 0, 1, 2:
		p.DeliveredAt = 0 // tracker fills in now
	case 3:
		p.DeliveredAt = now
	case 4, 5, 6:
		p.DeliveredAt = now - int64(1+g.rng.IntN(4))
	default:
		p.DeliveredAt = now + 1
	}
	if hostile && g.rng.IntN(20) == 0 {
		switch g.rng.IntN(3) {
		case 0:
			p.UID = ""
		case 1:
			p.SessionID = 0
		default:
			p.MessageID = 0
		}
	}
	return p
}

// ---- sequential unit ---------------------------------------------------------

type c32Step struct {
	Subs []c32Sub `json:"subs"`
	PC   int      `json:"pending_count_after"`
}

// c32ReplayBefore re-runs the model over the logged steps and describes the
// state right before the first (sub-)operation the model refuses.
func c32ReplayBefore(log []c32Step, maxPer int) string {
	st := &c32State{}
	for _, step := range log {
		for _, s := range step.Subs {
			before := st.describe()
			if sig, _ := c32Apply(st, maxPer, s.In, s.Out); sig != "" {
				return before
			}
		}
	}
	return st.describe()
}

func c32Fingerprint(parts []string) string {
	h := fnv.New64a()
	for _, p := range parts {
		h.Write([]byte(p))
		h.Write([]byte{0})
	}
	return fmt.Sprintf("%d|%016x", len(parts), h.Sum64())
}

func TestVerifC32Seq(t *testing.T) {
	r := verifkit.Start(t, "C32", "seq")
	defer r.Finish()
	r.SetRule("history = PRNG sequence of 20-70 AckTracker calls (Bind, BindResult, BindBatch, FinishBind, FinishBindBatch, CancelBind, Ack, SessionClosed, clock advance + Expire, Reset, PendingCount) over 2-4 sessions x 2-6 message ids, ShardCount 1..8 or default, MaxPendingPerSession 0/2/3, followed by a full drain; every return value and PendingCount() after every call is compared with the reference model. Non-trivial = the history contains at least one re-delivery of a pending key AND at least one of: rollback that must keep the key, ack/close/expire that removed something. Distinct by the sequence of (operation, outcome class).")
	r.Assume("Calls are sequential; the tracker's Now is a logical clock advanced only by the harness.")
	r.Assume("Expire boundary follows the method documentation: a key goes when every candidate has DeliveredAt <= now - ceil(ttl seconds); ttl <= 0 removes nothing.")

	n := r.N(60_000, 1_500_000)
	for hi := 0; hi < n; hi++ {
		if r.Skip(hi) {
			continue
		}
		rng := r.Rand(32, 1, uint64(hi))
		c32SeqHistory(r, hi, rng)
		if r.NumViolations() >= 25 {
			r.Note("stopped_early", fmt.Sprintf("after history %d: 25 violations recorded", hi))
			break
		}
	}
}

func c32SeqHistory(r *verifkit.Run, hi int, rng *rand.Rand) {
	shards := []int{1, 1, 2, 3, 4, 8, 0, 5}[rng.IntN(8)]
	maxPer := []int{0, 0, 2, 3}[rng.IntN(4)]
	universe, msgs := c32PickUniverse(rng, 4, 6)
	steps := 20 + rng.IntN(51)
	{
		r.BeginCase(hi, fmt.Sprintf("seq shards=%d max=%d sess=%d msgs=%d steps=%d", shards, maxPer, len(universe), len(msgs), steps))
	}
	var now atomic.Int64
	now.Store(100)
	tr := delivery.NewAckTracker(delivery.AckTrackerOptions{ShardCount: shards, Now: now.Load, MaxPendingPerSession: maxPer})
	c := &c32Caller{tr: tr, now: &now, universe: universe}
	g := &c32Gen{rng: rng, universe: universe, msgs: msgs, now: &now}
	st := &c32State{}

	var log []c32Step
	var fp []string
	sawRefresh, sawEffect := false, false
	failed := false
	toks := map[int]delivery.AckBindToken{}
	hP := map[int]c32P{}
	seenTok := map[delivery.AckBindToken]int{}
	var handles []int
	type batch struct {
		ps []c32P
		hs []int
	}
	var batches []batch
	nextH := 0
	newH := func() int { nextH++; return nextH }

	witness := func(extra map[string]any) map[string]any {
		l := log
		if len(l) > 30 {
			l = l[len(l)-30:]
		}
		w := map[string]any{"shards": shards, "max_pending_per_session": maxPer, "universe": universe, "msgs": msgs, "last_steps": l, "history_len": len(log)}
		for k, v := range extra {
			w[k] = v
		}
		return w
	}
	noteTok := func(h int, tok delivery.AckBindToken) {
		toks[h] = tok
		if tok.Valid() {
			if o, dup := seenTok[tok]; dup {
				r.Violation("bind-token-reused", witness(map[string]any{"handles": []int{o, h}}))
				failed = true
			}
			seenTok[tok] = h
		}
	}
	// apply runs model steps for one real call and compares PendingCount().
	apply := func(subs []c32Sub, direct string) {
		pc := tr.PendingCount()
		log = append(log, c32Step{Subs: subs, PC: pc})
		if direct != "" {
			r.Violation(direct, witness(nil))
			failed = true
			return
		}
		for _, s := range subs {
			sig, class := c32Apply(st, maxPer, s.In, s.Out)
			if sig != "" {
				r.Violation(sig+":"+s.In.API, witness(map[string]any{"model_before": c32ReplayBefore(log, maxPer), "op": s}))
				failed = true
				return
			}
			r.Count("seq."+s.In.API+"."+s.In.Op+"."+class, 1)
			fp = append(fp, s.In.Op+":"+class)
			switch {
			case s.In.Op == c32OpBind && (class == "refresh" || class == "added+refresh"):
				sawRefresh = true
			case s.In.Op == c32OpCancel && (class == "kept-committed" || class == "kept-other-attempt"):
				sawEffect = true
			case s.In.Op == c32OpAck && class != "miss":
				sawEffect = true
			case (s.In.Op == c32OpClose || s.In.Op == c32OpExpire) && class != "empty" && class != "none" && class != "none+boundary":
				sawEffect = true
			}
		}
		r.Eval(1)
		if pc != len(st.E) {
			sig := "pending-count-below-distinct-outstanding"
			if pc > len(st.E) {
				sig = "pending-count-above-distinct-outstanding"
			}
			r.Violation(sig+":after-"+subs[0].In.API, witness(map[string]any{"pending_count": pc, "model_keys": len(st.E), "model": st.describe()}))
			failed = true
		}
	}
	pickHandle := func() int {
		if len(handles) == 0 || rng.IntN(20) == 0 {
			return 0 // zero token
		}
		if rng.IntN(2) == 0 {
			// generation guided by the model: a token that is still in flight
			var live []int
			for i := range st.E {
				for _, a := range st.E[i].Atts {
					live = append(live, a.H)
				}
			}
			if len(live) > 0 {
				return live[rng.IntN(len(live))]
			}
		}
		if rng.IntN(10) < 7 {
			lo := len(handles) - 8
			if lo < 0 {
				lo = 0
			}
			return handles[lo+rng.IntN(len(handles)-lo)]
		}
		return handles[rng.IntN(len(handles))]
	}
	pendingFor := func(h int) c32P {
		p, ok := hP[h]
		if !ok || rng.IntN(10) == 0 {
			p = g.pending(g.key(), h, true) // foreign / mismatched identity for this token
		}
		return p
	}

	guard := func(api string, fn func()) {
		defer func() {
			if p := recover(); p != nil {
				failed = true
				r.Violation("panic:"+api, witness(map[string]any{"panic": fmt.Sprint(p), "stack": string(debug.Stack())}))
			}
		}()
		fn()
	}

	for s := 0; s < steps && !failed; s++ {
		x := rng.IntN(100)
		switch {
		case x < 20:
			h := newH()
			p := g.pending(g.key(), h, true)
			hP[h] = p
			handles = append(handles, h)
			guard("BindResult", func() {
				tok, subs, direct := c.bindResult(p, h)
				noteTok(h, tok)
				apply(subs, direct)
			})
		case x < 27:
			h := newH()
			p := g.pending(g.key(), h, true)
			hP[h] = p
			guard("Bind", func() {
				_, subs := c.bind(p, h)
				apply(subs, "")
			})
		case x < 37:
			nb := rng.IntN(7)
			ps := make([]c32P, nb)
			hs := make([]int, nb)
			var base c32Key
			for i := range ps {
				hs[i] = newH()
				k := g.key()
				if i > 0 && rng.IntN(3) == 0 {
					k = base // duplicate row in the same batch
				}
				base = k
				ps[i] = g.pending(k, hs[i], true)
				hP[hs[i]] = ps[i]
				handles = append(handles, hs[i])
			}
			guard("BindBatch", func() {
				tk, subs, direct := c.bindBatch(ps, hs)
				for i := range hs {
					noteTok(hs[i], tk[i])
				}
				apply(subs, direct)
			})
			batches = append(batches, batch{ps, hs})
		case x < 52:
			h := pickHandle()
			p := pendingFor(h)
			guard("FinishBind", func() { apply(c.finish(p, h, toks[h]), "") })
		case x < 58:
			var ps []c32P
			var hs []int
			if len(batches) > 0 && rng.IntN(3) > 0 {
				b := batches[rng.IntN(len(batches))]
				ps, hs = b.ps, b.hs
			} else {
				nb := rng.IntN(5)
				for i := 0; i < nb; i++ {
					h := pickHandle()
					hs = append(hs, h)
					ps = append(ps, pendingFor(h))
				}
			}
			tk := make([]delivery.AckBindToken, len(hs))
			for i, h := range hs {
				tk[i] = toks[h]
			}
			if len(tk) > 0 && rng.IntN(8) == 0 {
				tk = tk[:len(tk)-1] // token slice shorter than the rows
			}
			ni := rng.IntN(7)
			idx := make([]int, ni)
			for i := range idx {
				idx[i] = rng.IntN(len(ps)+2) - 1
			}
			guard("FinishBindBatch", func() { apply(c.finishBatch(ps, hs, tk, idx), "") })
		case x < 70:
			h := pickHandle()
			p := pendingFor(h)
			guard("CancelBind", func() { apply(c.cancel(p, h, toks[h]), "") })
		case x < 81:
			k := g.key()
			if rng.IntN(25) == 0 {
				k.UID = "nobody"
			}
			if rng.IntN(40) == 0 {
				k.Msg = 0
			}
			guard("Ack", func() { apply(c.ack(k, uint64(rng.IntN(4))), "") })
		case x < 85:
			sN := universe[rng.IntN(len(universe))]
			if rng.IntN(25) == 0 {
				sN.UID = ""
			}
			guard("SessionClosed", func() { apply(c.closeSess(sN.UID, sN.Sess), "") })
		case x < 91:
			now.Add(int64(1 + rng.IntN(3)))
			r.Count("seq.clock-advance", 1)
			fallthrough
		case x < 96:
			ttl := c32TTLs[rng.IntN(len(c32TTLs))]
			guard("Expire", func() { apply(c.expire(ttl), "") })
		case x < 97:
			guard("Reset", func() { apply(c.reset(), "") })
		default:
			guard("PendingCount", func() { apply(c.count(), "") })
		}
	}
	// drain: every identity of the universe, then every session, then empty.
	if !failed {
		if rng.IntN(2) == 0 {
			for _, s := range universe {
				for _, m := range msgs {
					if failed {
						break
					}
					guard("Ack", func() { apply(c.ack(c32Key{s.UID, s.Sess, m}, 0), "") })
				}
			}
		}
		for _, s := range universe {
			if failed {
				break
			}
			guard("SessionClosed", func() { apply(c.closeSess(s.UID, s.Sess), "") })
		}
		if !failed {
			guard("PendingCount", func() { apply(c.count(), "") })
		}
		if !failed && len(st.E) != 0 {
			r.Violation("harness:model-not-empty-after-drain", witness(nil))
			failed = true
		}
		// with a limit: an emptied session must accept `limit` fresh identities again
		if !failed && maxPer > 0 {
			s := universe[0]
			for i := 0; i < maxPer+1 && !failed; i++ {
				h := newH()
				p := c32P{UID: s.UID, SessionID: s.Sess, MessageID: uint64(7000 + i), MessageSeq: uint64(h), DeliveredAt: now.Load()}
				guard("BindResult", func() {
					tok, subs, direct := c.bindResult(p, h)
					noteTok(h, tok)
					apply(subs, direct)
				})
			}
		}
	}
	r.Max("max_history_len", len(log))
	if !failed && sawRefresh && sawEffect {
		r.Nontrivial(c32Fingerprint(fp))
	}
	if !failed && hi%4001 == 17 && r.WantSample() {
		l := log
		if len(l) > 12 {
			l = l[:12]
		}
		r.Sample(map[string]any{"history": hi, "shards": shards, "max_pending_per_session": maxPer, "first_steps": l})
	}
}

// ---- concurrent unit ---------------------------------------------------------

type c32Rec struct {
	G    int      `json:"g"`
	Call int64    `json:"call"`
	Ret  int64    `json:"ret"`
	Subs []c32Sub `json:"subs"`
}

func c32Model(maxPer int) porcupine.Model {
	return porcupine.Model{
		Init: func() interface{} { return &c32State{} },
		Step: func(state, input, output interface{}) (bool, interface{}) {
			st := state.(*c32State).clone()
			sig, _ := c32Apply(st, maxPer, input.(c32In), output.(c32Out))
			return sig == "", st
		},
		Equal: func(a, b interface{}) bool { return c32StateEqual(a.(*c32State), b.(*c32State)) },
		DescribeOperation: func(input, output interface{}) string {
			return fmt.Sprintf("%+v -> %+v", input, output)
		},
		DescribeState: func(s interface{}) string { return s.(*c32State).describe() },
	}
}

func TestVerifC32Conc(t *testing.T) {
	r := verifkit.Start(t, "C32", "conc")
	defer r.Finish()
	r.SetRule("history = optional sequential prefix (<= 5 calls), then 2-6 goroutines issuing 8-26 AckTracker calls in total on 2-3 sessions x 2-3 message ids with a frozen logical clock, then a sequential epilogue (count, close every session, count); call/return ticks from one atomic counter; porcupine decides linearizability against the reference model (documented multi-step calls decomposed). Non-trivial = two calls of different goroutines touching the same session (or a global call) overlapped in logical time. Distinct by the call-ordered sequence of (goroutine, operation, outcome).")
	r.Assume("The logical clock is frozen while goroutines run; Reset is issued only while quiescent (its documentation requires the caller to exclude concurrent mutations).")
	r.Assume("BindBatch/FinishBindBatch issued concurrently carry rows of one session (one shard-atomic step); cross-session batches are covered by the sequential unit.")

	n := r.N(8_000, 200_000)
	for hi := 0; hi < n; hi++ {
		if r.Skip(hi) {
			continue
		}
		c32ConcHistory(r, hi)
		if r.NumViolations() >= 10 {
			r.Note("stopped_early", fmt.Sprintf("after history %d: 10 violations recorded", hi))
			break
		}
	}
}

func c32ConcHistory(r *verifkit.Run, hi int) {
	rng := r.Rand(32, 2, uint64(hi))
	shards := []int{1, 2, 3, 4, 8, 0}[rng.IntN(6)]
	maxPer := []int{0, 0, 2}[rng.IntN(3)]
	universe, msgs := c32PickUniverse(rng, 3, 3)
	G := 2 + rng.IntN(5)
	totalCalls := 8 + rng.IntN(19)
	perG := totalCalls / G
	if perG < 2 {
		perG = 2
	}
	{
		r.BeginCase(hi, fmt.Sprintf("conc shards=%d max=%d sess=%d msgs=%d G=%d per=%d", shards, maxPer, len(universe), len(msgs), G, perG))
	}
	var now atomic.Int64
	now.Store(100)
	tr := delivery.NewAckTracker(delivery.AckTrackerOptions{ShardCount: shards, Now: now.Load, MaxPendingPerSession: maxPer})
	c := &c32Caller{tr: tr, now: &now, universe: universe, conc: true}
	var clock atomic.Int64

	// ---- prefix (sequential, recorded) ----
	var recs []c32Rec
	var direct []string
	type tokH struct {
		h   int
		p   c32P
		tok delivery.AckBindToken
	}
	var shared []tokH
	pg := &c32Gen{rng: rng, universe: universe, msgs: msgs, now: &now}
	np := rng.IntN(6)
	hN := 0
	for i := 0; i < np; i++ {
		hN++
		p := pg.pending(pg.key(), hN, false)
		call := clock.Add(1)
		var subs []c32Sub
		switch rng.IntN(3) {
		case 0:
			_, subs = c.bind(p, hN)
		default:
			tok, s2, d := c.bindResult(p, hN)
			subs = s2
			if d != "" {
				direct = append(direct, d)
			}
			shared = append(shared, tokH{hN, p, tok})
			if rng.IntN(3) == 0 {
				ret := clock.Add(1)
				recs = append(recs, c32Rec{G: 0, Call: call, Ret: ret, Subs: subs})
				call = clock.Add(1)
				subs = c.finish(p, hN, tok)
			}
		}
		ret := clock.Add(1)
		recs = append(recs, c32Rec{G: 0, Call: call, Ret: ret, Subs: subs})
	}

	// ---- concurrent section ----
	gRecs := make([][]c32Rec, G)
	gDirect := make([][]string, G)
	gToks := make([][]delivery.AckBindToken, G)
	var start, done sync.WaitGroup
	var arrived atomic.Int32
	start.Add(1)
	for gi := 0; gi < G; gi++ {
		done.Add(1)
		go func(gi int) {
			defer done.Done()
			grng := r.Rand(32, 3, uint64(hi), uint64(gi))
			gg := &c32Gen{rng: grng, universe: universe, msgs: msgs, now: &now}
			own := append([]tokH(nil), shared...)
			type ownBatch struct {
				ps   []c32P
				hs   []int
				toks []delivery.AckBindToken
			}
			var batches []ownBatch
			hLocal := (gi + 1) * 1000
			// The whole script is generated before the barrier so that between
			// two calls the goroutine does almost nothing (maximises the time
			// spent inside the tracker, hence real overlap).
			type scriptOp struct {
				kind  int
				p     c32P
				ps    []c32P
				hs    []int
				k     c32Key
				sess  c32Sess
				ttl   time.Duration
				pickR int // < 0: zero token
				idxR  []int
				yield bool
			}
			script := make([]scriptOp, perG)
			for i := range script {
				op := scriptOp{yield: grng.IntN(6) == 0, pickR: grng.IntN(1 << 20)}
				if grng.IntN(12) == 0 {
					op.pickR = -1
				}
				x := grng.IntN(100)
				switch {
				case x < 22:
					op.kind = 0
					hLocal++
					op.hs = []int{hLocal}
					op.p = gg.pending(gg.key(), hLocal, false)
				case x < 28:
					op.kind = 1
					hLocal++
					op.hs = []int{hLocal}
					op.p = gg.pending(gg.key(), hLocal, false)
				case x < 36:
					op.kind = 2
					nb := 1 + grng.IntN(3)
					sN := universe[grng.IntN(len(universe))]
					op.ps = make([]c32P, nb)
					op.hs = make([]int, nb)
					for j := range op.ps {
						hLocal++
						op.hs[j] = hLocal
						op.ps[j] = gg.pending(c32Key{sN.UID, sN.Sess, msgs[grng.IntN(len(msgs))]}, hLocal, false)
					}
				case x < 50:
					op.kind = 3
					op.p = gg.pending(gg.key(), 0, false)
				case x < 54:
					op.kind = 4
					op.p = gg.pending(gg.key(), 0, false)
					op.idxR = make([]int, 1+grng.IntN(3))
					for j := range op.idxR {
						op.idxR[j] = grng.IntN(1 << 20)
					}
				case x < 66:
					op.kind = 5
					op.p = gg.pending(gg.key(), 0, false)
				case x < 80:
					op.kind = 6
					op.k = gg.key()
				case x < 85:
					op.kind = 7
					op.sess = universe[grng.IntN(len(universe))]
				case x < 92:
					op.kind = 8
					op.ttl = []time.Duration{500 * time.Millisecond, time.Second, 2 * time.Second, 3 * time.Second, 4 * time.Second}[grng.IntN(5)]
				default:
					op.kind = 9
				}
				script[i] = op
			}
			out := make([]c32Rec, 0, perG)
			pick := func(op *scriptOp) tokH {
				if len(own) == 0 || op.pickR < 0 {
					return tokH{h: 0, p: op.p}
				}
				return own[op.pickR%len(own)]
			}
			start.Wait()
			// spin barrier: all goroutines are running before the first call
			// (bounded; falls through if starved).
			arrived.Add(1)
			for spin := 0; arrived.Load() < int32(G) && spin < 200_000; spin++ {
				if spin&63 == 63 {
					runtime.Gosched()
				}
			}
			for i := range script {
				op := &script[i]
				var subs []c32Sub
				var call, ret int64
				if op.yield {
					runtime.Gosched()
				}
				switch op.kind {
				case 0:
					call = clock.Add(1)
					tok, s2, d := c.bindResult(op.p, op.hs[0])
					ret = clock.Add(1)
					subs = s2
					if d != "" {
						gDirect[gi] = append(gDirect[gi], d)
					}
					own = append(own, tokH{op.hs[0], op.p, tok})
					gToks[gi] = append(gToks[gi], tok)
				case 1:
					call = clock.Add(1)
					_, subs = c.bind(op.p, op.hs[0])
					ret = clock.Add(1)
				case 2:
					call = clock.Add(1)
					tk, s2, d := c.bindBatch(op.ps, op.hs)
					ret = clock.Add(1)
					subs = s2
					if d != "" {
						gDirect[gi] = append(gDirect[gi], d)
					}
					for j := range op.ps {
						own = append(own, tokH{op.hs[j], op.ps[j], tk[j]})
						gToks[gi] = append(gToks[gi], tk[j])
					}
					batches = append(batches, ownBatch{op.ps, op.hs, tk})
				case 3:
					th := pick(op)
					call = clock.Add(1)
					subs = c.finish(th.p, th.h, th.tok)
					ret = clock.Add(1)
				case 4:
					if len(batches) == 0 {
						th := pick(op)
						call = clock.Add(1)
						subs = c.finish(th.p, th.h, th.tok)
						ret = clock.Add(1)
						break
					}
					b := batches[op.pickR&0xffff%len(batches)]
					idx := make([]int, len(op.idxR))
					for j := range idx {
						idx[j] = op.idxR[j] % len(b.ps)
					}
					call = clock.Add(1)
					subs = c.finishBatch(b.ps, b.hs, b.toks, idx)
					ret = clock.Add(1)
				case 5:
					th := pick(op)
					call = clock.Add(1)
					subs = c.cancel(th.p, th.h, th.tok)
					ret = clock.Add(1)
				case 6:
					call = clock.Add(1)
					subs = c.ack(op.k, 0)
					ret = clock.Add(1)
				case 7:
					call = clock.Add(1)
					subs = c.closeSess(op.sess.UID, op.sess.Sess)
					ret = clock.Add(1)
				case 8:
					call = clock.Add(1)
					subs = c.expire(op.ttl)
					ret = clock.Add(1)
				default:
					call = clock.Add(1)
					subs = c.count()
					ret = clock.Add(1)
				}
				out = append(out, c32Rec{G: gi + 1, Call: call, Ret: ret, Subs: subs})
			}
			gRecs[gi] = out
		}(gi)
	}
	finished := verifkit.Watchdog(5*time.Minute, func() {
		start.Done()
		done.Wait()
	})
	if !finished {
		r.Inconclusive(fmt.Sprintf("conc history %d: goroutines did not finish within the 5 min watchdog", hi))
		return
	}
	for gi := range gRecs {
		recs = append(recs, gRecs[gi]...)
		direct = append(direct, gDirect[gi]...)
	}

	// ---- epilogue (sequential, recorded) ----
	epi := func(fn func() []c32Sub) {
		call := clock.Add(1)
		subs := fn()
		ret := clock.Add(1)
		recs = append(recs, c32Rec{G: 0, Call: call, Ret: ret, Subs: subs})
	}
	epi(c.count)
	if rng.IntN(2) == 0 {
		for _, s := range universe {
			for _, m := range msgs {
				epi(func() []c32Sub { return c.ack(c32Key{s.UID, s.Sess, m}, 0) })
			}
		}
	}
	for _, s := range universe {
		epi(func() []c32Sub { return c.closeSess(s.UID, s.Sess) })
	}
	epi(c.count)

	sort.Slice(recs, func(i, j int) bool { return recs[i].Call < recs[j].Call })
	r.Eval(1)

	// direct structural findings
	for _, d := range direct {
		r.Violation(d, map[string]any{"shards": shards, "max_pending_per_session": maxPer, "history": recs})
	}
	seenTok := map[delivery.AckBindToken]bool{}
	for _, th := range shared {
		if th.tok.Valid() {
			seenTok[th.tok] = true
		}
	}
	for gi := range gToks {
		for _, tok := range gToks[gi] {
			if !tok.Valid() {
				continue
			}
			if seenTok[tok] {
				r.Violation("bind-token-reused", map[string]any{"shards": shards, "history": recs})
			}
			seenTok[tok] = true
		}
	}

	// ---- porcupine ----
	var ops []porcupine.Operation
	var fp []string
	for _, rec := range recs {
		for _, s := range rec.Subs {
			ops = append(ops, porcupine.Operation{ClientId: rec.G, Input: s.In, Call: rec.Call, Output: s.Out, Return: rec.Ret})
			r.Count("conc."+s.In.API+"."+s.In.Op, 1)
		}
		fp = append(fp, fmt.Sprintf("%d:%s:%s", rec.G, rec.Subs[0].In.API, c32OutClass(rec.Subs[0])))
	}
	r.Max("max_history_len", len(ops))
	r.Count("conc.model_ops", len(ops))
	res := porcupine.CheckOperationsTimeout(c32Model(maxPer), ops, 120*time.Second)
	r.Count("porcupine."+string(res), 1)
	switch res {
	case porcupine.Illegal:
		r.Violation("concurrent-history-not-linearizable", map[string]any{"shards": shards, "max_pending_per_session": maxPer, "universe": universe, "msgs": msgs, "goroutines": G, "history": recs})
		return
	case porcupine.Unknown:
		r.Inconclusive(fmt.Sprintf("conc history %d: porcupine timed out on %d operations", hi, len(ops)))
		return
	}

	// non-trivial: real overlap between goroutines on the same session / a global call
	overlap := false
	for i := 0; i < len(recs) && !overlap; i++ {
		for j := i + 1; j < len(recs); j++ {
			a, b := recs[i], recs[j]
			if b.Call > a.Ret {
				break
			}
			if a.G == b.G || a.G == 0 || b.G == 0 {
				continue
			}
			if c32SameScope(a, b) {
				overlap = true
				break
			}
		}
	}
	if overlap {
		r.Count("conc.histories_with_real_overlap", 1)
		r.Nontrivial(c32Fingerprint(fp))
	}
	if hi%701 == 5 && r.WantSample() {
		r.Sample(map[string]any{"history": hi, "shards": shards, "max_pending_per_session": maxPer, "goroutines": G, "records": recs})
	}
}

func c32OutClass(s c32Sub) string {
	o := s.Out
	switch s.In.Op {
	case c32OpBind:
		return fmt.Sprintf("b%v/a%d", o.Bound, o.Added)
	case c32OpFinish:
		return fmt.Sprintf("f%d", o.Finished)
	case c32OpCancel:
		return fmt.Sprintf("c%v/r%v", o.Canceled, o.Removed)
	case c32OpAck:
		return fmt.Sprintf("k%v", o.OK)
	case c32OpClose, c32OpExpire:
		return fmt.Sprintf("n%d", len(o.List))
	case c32OpCount:
		return fmt.Sprintf("=%d", o.N)
	}
	return ""
}

// c32SameScope: do two recorded calls touch a common session (global calls
// touch every session)?
func c32SameScope(a, b c32Rec) bool {
	sa, ga := c32Scope(a)
	sb, gb := c32Scope(b)
	if ga || gb {
		return true
	}
	for s := range sa {
		if sb[s] {
			return true
		}
	}
	return false
}

func c32Scope(rec c32Rec) (map[c32Sess]bool, bool) {
	m := map[c32Sess]bool{}
	for _, s := range rec.Subs {
		switch s.In.Op {
		case c32OpExpire, c32OpCount, c32OpReset:
			return nil, true
		case c32OpBind:
			for _, it := range s.In.Binds {
				m[c32Sess{it.P.UID, it.P.SessionID}] = true
			}
		case c32OpFinish:
			for _, it := range s.In.Fins {
				m[c32Sess{it.K.UID, it.K.Sess}] = true
			}
		default:
			m[c32Sess{s.In.K.UID, s.In.K.Sess}] = true
		}
	}
	return m, false
}
