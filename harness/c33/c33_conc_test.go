//go:build verif

package presence_test

// C33 / unit "conc" — authority fencing under concurrent authority changes.
//
// Per case 1–2 "flipper" goroutines own disjoint hash slots and walk each of
// them through a PRNG sequence of BecomeAuthority/LoseAuthority with a
// strictly increasing generation g (encoded in LeaderTerm, sometimes also
// ConfigEpoch/SlotID). 2–6 workers issue TouchRoutes / RegisterRoute /
// CommitRoute / AbortRoute / UnregisterRoute / ExpireRoutesDetailed / lookups
// with the target of the generation they LAST READ (re-read only now and
// then, so many calls are stale when they run). Every route a worker sends is
// tagged with the generation of the target that carries it (Listener "g<g>",
// SessionID>>8 == g) and with the operation that sends it (DeviceID).
//
// Oracle (no timing; the flippers are paced by worker PROGRESS, not by time):
//  (1) an operation accepted under generation g may only have effects in
//      generation g: every route returned by a successful lookup under
//      generation G — by a worker at any time, by the flipper that installed G
//      (sole writer of that slot's authority) before its next flip, and at the
//      quiescent point — must carry tag G.
//      => stale-generation-effect-visible-in-new-authority:<op that sent it>
//  (2) happens-before on a logical clock (verifkit.Recorder): an operation
//      with generation g on slot h whose call started after a later flip of h
//      (any flip after Become(g) in the owner's sequence) had RETURNED must
//      fail with ErrNotLeader. Overlapping calls are unconstrained.
//      => stale-accepted-after-flip-returned:<op>
//  (3) same reading of "stale => Snapshot unchanged" as the sequential unit,
//      at the quiescent point: TouchRoutesTotal == entries of touches that
//      returned nil, ExpiredRoutesTotal == sum of Expired returned,
//      Active/ByHashSlot == what lookups under the final authorities show.
//      => snapshot-mismatch:conc:<what>

import (
	"fmt"
	"math/rand/v2"
	"reflect"
	"runtime"
	"strings"
	"sync"
	"sync/atomic"
	"testing"
	"time"

	"github.com/WuKongIM/WuKongIM/internal/runtime/presence"
	"github.com/WuKongIM/WuKongIM/pkg/verifkit"
)

var c33cSlots = []uint16{3, 35, 7, 12}

func c33cTarget(h uint16, g int64) presence.RouteTarget {
	// strictly changing authority identity: the term is the generation; epoch
	// and slot id change along with it now and then
	return presence.RouteTarget{HashSlot: h, SlotID: uint32(1 + (g/5)%2), LeaderNodeID: 9, LeaderTerm: uint64(g),
		ConfigEpoch: uint64(1 + g/3), RouteRevision: uint64(g % 4), AuthorityEpoch: uint64(g)}
}

func c33cTag(g int64) string { return fmt.Sprintf("g%d", g) }

type c33cIn struct {
	Op  string `json:"op"`
	H   uint16 `json:"h"`
	G   int64  `json:"g"`
	Idx int    `json:"idx,omitempty"` // flips: position in the owner's sequence for H
}

type c33cCase struct {
	r       *verifkit.Run
	d       *presence.Directory
	rec     *verifkit.Recorder
	cur     [4]atomic.Int64 // published generation per slot; <= 0: no authority (value = -last generation)
	stop    atomic.Bool
	failed  atomic.Bool
	ops     atomic.Int64 // worker progress (paces the flippers)
	touched atomic.Uint64
	expired atomic.Uint64
	desc    string
}

func (c *c33cCase) fail(sig string, wit map[string]any) {
	if c.failed.Swap(true) {
		return
	}
	c.stop.Store(true)
	wit["case"] = c.desc
	c.r.Violation(sig, wit)
}

// related returns the recorded operations on slot h with one of the given
// generations (bounded), for the witness.
func (c *c33cCase) related(h uint16, gens ...int64) []verifkit.Op {
	var out []verifkit.Op
	for _, op := range c.rec.Ops() {
		in, ok := op.Input.(c33cIn)
		if !ok || in.H != h {
			continue
		}
		for _, g := range gens {
			if in.G == g {
				out = append(out, op)
				break
			}
		}
	}
	if len(out) > 60 {
		out = out[len(out)-60:]
	}
	return out
}

// checkTagged decides oracle (1) on the result of a successful lookup under
// generation G of slot h.
func (c *c33cCase) checkTagged(h uint16, G int64, routes []presence.Route, where string) {
	for _, rt := range routes {
		if rt.Listener != c33cTag(G) || int64(rt.SessionID>>8) != G {
			gs := strings.TrimPrefix(rt.Listener, "g")
			var g int64
			fmt.Sscanf(gs, "%d", &g)
			c.fail("stale-generation-effect-visible-in-new-authority:"+rt.DeviceID, map[string]any{
				"hash_slot": h, "current_generation": G, "route_generation_tag": rt.Listener, "observed_by": where,
				"route": fmt.Sprintf("%+v", rt), "related_ops": c.related(h, g, G)})
			return
		}
	}
}

func c33cRoute(rng *rand.Rand, g int64, op string) presence.Route {
	lvl := uint8(2)
	if op == "register" && rng.IntN(2) == 0 {
		lvl = uint8(rng.IntN(2)) // conflicts -> pending tokens
	}
	return presence.Route{
		UID:         c33UIDs[rng.IntN(len(c33UIDs))],
		OwnerNodeID: uint64(1 + rng.IntN(2)), OwnerBootID: 7, OwnerSeq: uint64(1 + rng.IntN(3)),
		SessionID: uint64(g)<<8 | uint64(rng.IntN(6)), DeviceID: op, DeviceFlag: uint8(rng.IntN(2)), DeviceLevel: lvl,
		Listener: c33cTag(g), ConnectedUnix: c33BaseUnix + int64(rng.IntN(20)),
	}
}

func (c *c33cCase) flipper(client int, rng *rand.Rand, mine []int, nFlips int) {
	gen := make([]int64, len(c33cSlots))
	seq := make([]int, len(c33cSlots))
	for f := 0; f < nFlips && !c.stop.Load(); f++ {
		si := mine[rng.IntN(len(mine))]
		h := c33cSlots[si]
		prevG := c.cur[si].Load()
		// before giving the authority away: everything visible under it still
		// belongs to it (this flipper is the only writer of this slot's authority)
		if prevG > 0 {
			c.flipperCheck(client, si, prevG, "flipper-before-next-flip")
		}
		seq[si]++
		if prevG > 0 && rng.IntN(5) == 0 {
			c.rec.Do(client, c33cIn{Op: "lose", H: h, G: prevG, Idx: seq[si]}, func() any { c.d.LoseAuthority(h); return "ok" })
			c.cur[si].Store(-prevG)
			// sole writer: no authority now, whatever target is presented
			if _, err := c.d.EndpointsByUID(c33cTarget(h, prevG), c33UIDs[0]); c33Class(err) != c33NotLeader {
				c.fail("stale-accepted:lookup-after-loss:conc", map[string]any{"hash_slot": h, "generation": prevG, "err": fmt.Sprint(err)})
			}
			c.r.Count("conc.flip.lose", 1)
		} else {
			gen[si] += int64(1 + rng.IntN(2))
			g := gen[si]
			c.rec.Do(client, c33cIn{Op: "become", H: h, G: g, Idx: seq[si]}, func() any { c.d.BecomeAuthority(c33cTarget(h, g)); return "ok" })
			c.cur[si].Store(g)
			c.flipperCheck(client, si, g, "flipper-after-become")
			c.r.Count("conc.flip.become", 1)
		}
		// pace by worker progress, not by time: let a few operations land
		want := c.ops.Load() + int64(2+rng.IntN(10))
		for c.ops.Load() < want && !c.stop.Load() {
			runtime.Gosched()
		}
	}
}

func (c *c33cCase) flipperCheck(client, si int, G int64, where string) {
	h := c33cSlots[si]
	t := c33cTarget(h, G)
	for _, uid := range c33UIDs {
		rs, err := c.d.EndpointsByUID(t, uid)
		if err != nil {
			// sole writer of this authority: its own installed target must work
			c.fail("model-mismatch:current-target-rejected:conc", map[string]any{"hash_slot": h, "generation": G, "err": err.Error(), "where": where})
			return
		}
		c.checkTagged(h, G, rs, where)
	}
}

type c33cTok struct {
	si  int
	g   int64
	tok presence.PendingRouteToken
}

func (c *c33cCase) worker(client int, rng *rand.Rand) {
	known := make([]int64, len(c33cSlots))
	var toks []c33cTok
	var staleRejected, accepted int
	for !c.stop.Load() {
		si := rng.IntN(len(c33cSlots))
		h := c33cSlots[si]
		if known[si] <= 0 || rng.IntN(3) == 0 {
			known[si] = c.cur[si].Load() // re-read only now and then
			if known[si] < 0 {
				known[si] = -known[si] // a lost authority's last target: certainly stale
			}
		}
		g := known[si]
		if g == 0 {
			c.ops.Add(1)
			runtime.Gosched()
			continue
		}
		t := c33cTarget(h, g)
		var cls c33Err
		switch x := rng.IntN(100); {
		case x < 45:
			n := 1 + rng.IntN(3)
			routes := make([]presence.Route, n)
			for i := range routes {
				routes[i] = c33cRoute(rng, g, "touch")
			}
			cls = c.rec.Do(client, c33cIn{Op: "touch", H: h, G: g}, func() any {
				err := c.d.TouchRoutes(t, routes)
				if err == nil {
					c.touched.Add(uint64(n))
				}
				return c33Class(err)
			}).(c33Err)
		case x < 62:
			rt := c33cRoute(rng, g, "register")
			var res presence.RegisterResult
			cls = c.rec.Do(client, c33cIn{Op: "register", H: h, G: g}, func() any {
				var err error
				res, err = c.d.RegisterRoute(t, rt)
				return c33Class(err)
			}).(c33Err)
			if cls == c33OK && res.PendingToken != "" {
				toks = append(toks, c33cTok{si, g, res.PendingToken})
				c.r.Count("conc.register.pending", 1)
			}
		case x < 72 && len(toks) > 0:
			i := rng.IntN(len(toks))
			tk := toks[i]
			toks = append(toks[:i], toks[i+1:]...)
			si, h, g, t = tk.si, c33cSlots[tk.si], tk.g, c33cTarget(c33cSlots[tk.si], tk.g)
			op := "commit"
			if rng.IntN(4) == 0 {
				op = "abort"
			}
			cls = c.rec.Do(client, c33cIn{Op: op, H: h, G: g}, func() any {
				if op == "commit" {
					return c33Class(c.d.CommitRoute(t, tk.tok))
				}
				return c33Class(c.d.AbortRoute(t, tk.tok))
			}).(c33Err)
		case x < 80:
			rt := c33cRoute(rng, g, "unregister")
			cls = c.rec.Do(client, c33cIn{Op: "unregister", H: h, G: g}, func() any {
				return c33Class(c.d.UnregisterRoute(t, rt.Identity(), rt.OwnerSeq))
			}).(c33Err)
		case x < 84:
			now := time.Unix(c33BaseUnix+int64(rng.IntN(30)), 0)
			ttl := time.Duration(5+rng.IntN(20)) * time.Second
			res := c.d.ExpireRoutesDetailed(now, ttl)
			c.expired.Add(uint64(res.Expired))
			c.r.Count("conc.expire.calls", 1)
			c.ops.Add(1)
			continue
		default:
			uid := c33UIDs[rng.IntN(len(c33UIDs))]
			var rs []presence.Route
			cls = c.rec.Do(client, c33cIn{Op: "lookup", H: h, G: g}, func() any {
				var err error
				rs, err = c.d.EndpointsByUID(t, uid)
				return c33Class(err)
			}).(c33Err)
			if cls == c33OK {
				// accepted under generation g => the slot was generation g's
				c.checkTagged(h, g, rs, "worker-lookup")
			}
		}
		if cls == c33NotLeader {
			staleRejected++
		} else {
			accepted++
		}
		c.r.Eval(1)
		c.ops.Add(1)
	}
	c.r.Count("conc.ops.rejected_not_leader", staleRejected)
	c.r.Count("conc.ops.passed_fence", accepted)
}

type c33cFlip struct {
	idx       int
	g         int64
	become    bool
	call, ret int64
}

// happensBefore decides oracle (2) on the recorded history and returns the
// number of operations that overlapped a flip of their own slot.
func (c *c33cCase) happensBefore() (overlaps, mustFail int) {
	ops := c.rec.Ops()
	flips := map[uint16][]c33cFlip{}
	for _, op := range ops {
		in, ok := op.Input.(c33cIn)
		if !ok || (in.Op != "become" && in.Op != "lose") {
			continue
		}
		flips[in.H] = append(flips[in.H], c33cFlip{idx: in.Idx, g: in.G, become: in.Op == "become", call: op.Call, ret: op.Return})
	}
	for _, op := range ops {
		in, ok := op.Input.(c33cIn)
		if !ok || in.Op == "become" || in.Op == "lose" {
			continue
		}
		cls, _ := op.Output.(c33Err)
		installedAt := -1
		for _, f := range flips[in.H] {
			if f.become && f.g == in.G {
				installedAt = f.idx
			}
		}
		dead := false
		for _, f := range flips[in.H] {
			if f.call < op.Return && f.ret > op.Call {
				overlaps++
			}
			// a later flip of this slot had returned before the call started
			if installedAt >= 0 && f.idx > installedAt && f.ret < op.Call {
				dead = true
			}
		}
		if dead {
			mustFail++
			if cls != c33NotLeader {
				c.fail("stale-accepted-after-flip-returned:"+in.Op, map[string]any{"hash_slot": in.H, "generation": in.G, "result": cls.String(),
					"op": op, "related_ops": c.related(in.H, in.G)})
				return
			}
		}
	}
	return overlaps, mustFail
}

func (c *c33cCase) quiescent() {
	wantActive := 0
	wantBySlot := map[uint16]int{}
	for si, h := range c33cSlots {
		G := c.cur[si].Load()
		if G == 0 {
			continue
		}
		if G < 0 {
			if _, err := c.d.EndpointsByUID(c33cTarget(h, -G), c33UIDs[0]); c33Class(err) != c33NotLeader {
				c.fail("stale-accepted:lookup-after-loss:conc", map[string]any{"hash_slot": h, "generation": -G, "err": fmt.Sprint(err)})
				return
			}
			continue
		}
		for _, uid := range c33UIDs {
			rs, err := c.d.EndpointsByUID(c33cTarget(h, G), uid)
			if err != nil {
				c.fail("model-mismatch:current-target-rejected:conc", map[string]any{"hash_slot": h, "generation": G, "err": err.Error(), "where": "quiescent"})
				return
			}
			c.checkTagged(h, G, rs, "quiescent")
			wantActive += len(rs)
			if len(rs) > 0 {
				wantBySlot[h] += len(rs)
			}
		}
	}
	if c.failed.Load() {
		return
	}
	snap := c.d.Snapshot()
	if snap.TouchRoutesTotal != c.touched.Load() {
		c.fail("snapshot-mismatch:conc:touch-total", map[string]any{"snapshot": snap.TouchRoutesTotal, "entries_of_touches_that_returned_nil": c.touched.Load()})
		return
	}
	if snap.ExpiredRoutesTotal != c.expired.Load() {
		c.fail("snapshot-mismatch:conc:expired-total", map[string]any{"snapshot": snap.ExpiredRoutesTotal, "sum_of_returned_expired": c.expired.Load()})
		return
	}
	if snap.Active != wantActive || !reflect.DeepEqual(snap.ByHashSlot, wantBySlot) {
		c.fail("snapshot-mismatch:conc:active", map[string]any{"snapshot_active": snap.Active, "visible": wantActive, "by_slot": fmt.Sprint(snap.ByHashSlot), "visible_by_slot": fmt.Sprint(wantBySlot)})
	}
}

func TestVerifC33Conc(t *testing.T) {
	r := verifkit.Start(t, "C33", "conc")
	defer r.Finish()
	if runtime.GOMAXPROCS(0) < 8 {
		defer runtime.GOMAXPROCS(runtime.GOMAXPROCS(8))
	}
	r.SetRule("Each case: one directory, 1-2 flipper goroutines owning disjoint hash slots and flipping their authority (Become with strictly increasing generation / Lose) through a PRNG sequence paced by worker progress, 2-6 workers issuing touch/register/commit/abort/unregister/expire/lookup with the target generation they last read; routes tagged with target generation and sending operation. Non-trivial = case in which at least one operation overlapped a flip of its own slot AND at least one call that started after a later flip had returned was (correctly) rejected. Distinct = (flippers, workers, shards, overlap count, must-fail count).")
	r.Assume("operation sequences per goroutine are a pure function of (seed, case, goroutine); interleavings are up to the scheduler (race build, GOMAXPROCS>=8). Only happens-before facts on the recorder's logical clock and the flipper's sole-writer knowledge are asserted; overlapping calls are unconstrained.")
	nCases := r.N(300, 4000)
	for i := 0; i < nCases; i++ {
		if r.Skip(i) {
			continue
		}
		rng := r.Rand(3300, uint64(i))
		nFlip := 1 + rng.IntN(2)
		nWork := 2 + rng.IntN(5)
		shards := []int{0, 1, 2, 7}[rng.IntN(4)]
		flips := 15 + rng.IntN(30)
		c := &c33cCase{r: r, d: presence.NewDirectory(presence.DirectoryOptions{LocalNodeID: 9, ShardCount: shards}), rec: verifkit.NewRecorder()}
		c.desc = fmt.Sprintf("conc flippers=%d workers=%d shards=%d flips=%d", nFlip, nWork, shards, flips)
		r.BeginCase(i, c.desc)
		done := verifkit.Watchdog(120*time.Second, func() {
			var fw, ww sync.WaitGroup
			for w := 0; w < nWork; w++ {
				ww.Add(1)
				go func(w int) {
					defer ww.Done()
					c.worker(10+w, r.Rand(3301, uint64(i), uint64(w)))
				}(w)
			}
			for f := 0; f < nFlip; f++ {
				var mine []int
				for si := range c33cSlots {
					if si%nFlip == f {
						mine = append(mine, si)
					}
				}
				fw.Add(1)
				go func(f int, mine []int) {
					defer fw.Done()
					c.flipper(f, r.Rand(3302, uint64(i), uint64(f)), mine, flips)
				}(f, mine)
			}
			fw.Wait()
			c.stop.Store(true)
			ww.Wait()
		})
		if !done {
			c.stop.Store(true)
			r.Inconclusive("conc case watchdog expired: " + c.desc)
			return
		}
		if !c.failed.Load() {
			c.quiescent()
		}
		var overlaps, mustFail int
		if !c.failed.Load() {
			overlaps, mustFail = c.happensBefore()
		}
		r.Count("conc.ops.overlapping_a_flip_of_their_slot", overlaps)
		r.Count("conc.ops.started_after_later_flip_returned", mustFail)
		r.Max("conc.max_history_len", len(c.rec.Ops()))
		if c.failed.Load() {
			r.Count("conc.cases_failed", 1)
			if r.NumViolations() >= 10 {
				break
			}
			continue
		}
		r.Count("conc.cases_ok", 1)
		if overlaps > 0 && mustFail > 0 {
			r.Nontrivial(fmt.Sprintf("conc|%d|%d|%d|ov%d|mf%d", nFlip, nWork, shards, overlaps, mustFail))
		}
	}
}
