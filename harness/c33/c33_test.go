//go:build verif

package presence_test

// C33 — Presence routing is fenced by slot authority.
//
// Black-box monitor: PRNG histories are applied to TWO real directories
// (different shard layouts) and to a reference model. After every operation
// the complete observable state (every universe UID under every universe hash
// slot, plus Snapshot) is compared.
//
// Clauses of the statement and where they are decided:
//   (1) stale authority => ErrNotLeader and no state change:
//       c33World.staleGuard (error class, Snapshot DeepEqual before/after,
//       full lookup state still equal to the untouched model).
//   (2) unregistered connection never reappears at/below its unregister seq:
//       c33World.tomb (a tracker independent of the model) checked against
//       every route any lookup ever returns.
//   (3) TTL expiry removes exactly routes idle longer than ttl: model expiry on
//       the logical clock; Expired count + full state comparison after.
//   (4) deterministic lookup order: every lookup is issued repeatedly on both
//       directories and must be element-wise identical (and ByUIDs/ByTargets
//       must agree with ByUID order).
//
// Interpretations (to stay silent on correct code):
//   * "slot authority" = (HashSlot, SlotID, LeaderNodeID, LeaderTerm,
//     ConfigEpoch). RouteRevision and AuthorityEpoch are documented as not
//     being fences (FLOW.md, types.go); variants differing only there are sent
//     but neither acceptance nor rejection is asserted: the model follows the
//     observed outcome.
//   * Tombstones and owner sequences live inside one authority incarnation;
//     LoseAuthority / BecomeAuthority with a new identity clear them by
//     documented design, so clause (2) is scoped to one incarnation.
//   * OwnerSeq >= 1 (production derives it from SessionID / a generator and
//     treats 0 as unset).
//   * Route activity times are always non-zero (routes with no activity time
//     are documented as never indexed; "idle" is undefined for them).
//   * Conflict/pending/commit semantics, needed to predict the exact lookup
//     sets, are taken from FLOW.md; a divergence there is reported with a
//     "model-mismatch:" signature, separate from the statement clauses.

import (
	"errors"
	"fmt"
	"math/rand/v2"
	"reflect"
	"sort"
	"strings"
	"testing"
	"time"

	"github.com/WuKongIM/WuKongIM/internal/runtime/presence"
	"github.com/WuKongIM/WuKongIM/pkg/verifkit"
)

const c33BaseUnix = int64(1_700_000_000)

var (
	c33HashSlots = []uint16{3, 35, 7} // 3 and 35 share a shard when ShardCount=32
	c33UIDs      = []string{"ua", "ub", "uc"}
)

type c33Pending struct {
	route     presence.Route
	conflicts []presence.RouteIdentity
	tokens    [2]presence.PendingRouteToken // per directory
}

type c33Slot struct {
	target   presence.RouteTarget
	active   map[presence.RouteIdentity]presence.Route
	pending  []*c33Pending
	ownerSeq map[presence.RouteIdentity]uint64
	tomb     map[presence.RouteIdentity]uint64
	// dead holds the tokens of candidates the model no longer knows (committed,
	// aborted, superseded, purged by an unregister). They stay in the workload:
	// committing one must never make anything visible.
	dead [][2]presence.PendingRouteToken
	// purged marks dead tokens that were dropped by an unregister purge
	purged map[presence.PendingRouteToken]bool
}

func c33NewSlot(t presence.RouteTarget) *c33Slot {
	return &c33Slot{target: t, active: map[presence.RouteIdentity]presence.Route{},
		ownerSeq: map[presence.RouteIdentity]uint64{}, tomb: map[presence.RouteIdentity]uint64{},
		purged: map[presence.PendingRouteToken]bool{}}
}

func c33SameAuthority(a, b presence.RouteTarget) bool {
	return a.HashSlot == b.HashSlot && a.SlotID == b.SlotID && a.LeaderNodeID == b.LeaderNodeID &&
		a.LeaderTerm == b.LeaderTerm && a.ConfigEpoch == b.ConfigEpoch
}

func c33Seen(r presence.Route) int64 {
	if r.LastSeenUnix != 0 {
		return r.LastSeenUnix
	}
	return r.ConnectedUnix
}

func c33Norm(r presence.Route) presence.Route {
	if r.LastSeenUnix == 0 {
		r.LastSeenUnix = r.ConnectedUnix
	}
	return r
}

func c33IdentLess(a, b presence.RouteIdentity) bool {
	if a.UID != b.UID {
		return a.UID < b.UID
	}
	if a.OwnerNodeID != b.OwnerNodeID {
		return a.OwnerNodeID < b.OwnerNodeID
	}
	if a.OwnerBootID != b.OwnerBootID {
		return a.OwnerBootID < b.OwnerBootID
	}
	return a.SessionID < b.SessionID
}

// conflicts as documented: same UID and device flag; a master-level incoming
// route replaces every such route, a slave-level one only the same device id.
func c33Conflicts(in, ex presence.Route) bool {
	if in.UID != ex.UID || in.DeviceFlag != ex.DeviceFlag {
		return false
	}
	switch in.DeviceLevel {
	case 1:
		return true
	case 0:
		return in.DeviceID == ex.DeviceID
	}
	return false
}

func (s *c33Slot) conflictsOf(r presence.Route) []presence.RouteIdentity {
	var out []presence.RouteIdentity
	for id, ex := range s.active {
		if id == r.Identity() {
			continue
		}
		if c33Conflicts(r, ex) {
			out = append(out, id)
		}
	}
	sort.Slice(out, func(i, j int) bool { return c33IdentLess(out[i], out[j]) })
	return out
}

type c33Err int

const (
	c33OK c33Err = iota
	c33NotLeader
	c33Stale
	c33NotReady
	c33Other
)

func (e c33Err) String() string {
	return [...]string{"ok", "not-leader", "stale-route", "not-ready", "other"}[e]
}

func c33Class(err error) c33Err {
	switch {
	case err == nil:
		return c33OK
	case errors.Is(err, presence.ErrNotLeader):
		return c33NotLeader
	case errors.Is(err, presence.ErrStaleRoute):
		return c33Stale
	case errors.Is(err, presence.ErrRouteNotReady):
		return c33NotReady
	}
	return c33Other
}

// model operations (target already validated) ------------------------------

func (s *c33Slot) register(r presence.Route) (c33Err, *c33Pending) {
	id := r.Identity()
	if t, ok := s.tomb[id]; ok && r.OwnerSeq <= t {
		return c33Stale, nil
	}
	if r.OwnerSeq < s.ownerSeq[id] {
		return c33Stale, nil
	}
	s.ownerSeq[id] = r.OwnerSeq
	r = c33Norm(r)
	conf := s.conflictsOf(r)
	if len(conf) == 0 {
		s.active[id] = r
		return c33OK, nil
	}
	p := &c33Pending{route: r, conflicts: conf}
	s.pending = append(s.pending, p)
	return c33OK, p
}

func (s *c33Slot) dropPending(p *c33Pending) {
	for i, q := range s.pending {
		if q == p {
			s.pending = append(s.pending[:i:i], s.pending[i+1:]...)
			s.dead = append(s.dead, p.tokens)
			return
		}
	}
}

func (s *c33Slot) commit(p *c33Pending) c33Err {
	id := p.route.Identity()
	if t, ok := s.tomb[id]; ok && p.route.OwnerSeq <= t {
		s.dropPending(p)
		return c33Stale
	}
	if p.route.OwnerSeq < s.ownerSeq[id] {
		s.dropPending(p)
		return c33Stale
	}
	ack := map[presence.RouteIdentity]bool{}
	for _, c := range p.conflicts {
		ack[c] = true
	}
	for _, c := range s.conflictsOf(p.route) {
		if !ack[c] {
			return c33NotReady
		}
	}
	for _, c := range p.conflicts {
		delete(s.active, c)
	}
	s.active[id] = p.route
	s.dropPending(p)
	return c33OK
}

func (s *c33Slot) unregister(id presence.RouteIdentity, seq uint64) {
	if seq > s.tomb[id] {
		s.tomb[id] = seq
	}
	if seq > s.ownerSeq[id] {
		s.ownerSeq[id] = seq
	}
	if ex, ok := s.active[id]; ok && ex.OwnerSeq <= seq {
		delete(s.active, id)
	}
	kept := s.pending[:0:0]
	for _, p := range s.pending {
		if p.route.Identity() == id && p.route.OwnerSeq <= seq {
			s.dead = append(s.dead, p.tokens)
			s.purged[p.tokens[0]] = true
			continue
		}
		kept = append(kept, p)
	}
	s.pending = kept
}

func (s *c33Slot) touch(r presence.Route) string {
	if r.UID == "" {
		return "skip"
	}
	id := r.Identity()
	if t, ok := s.tomb[id]; ok && r.OwnerSeq <= t {
		return "tomb-fenced"
	}
	if r.OwnerSeq < s.ownerSeq[id] {
		return "seq-fenced"
	}
	s.ownerSeq[id] = r.OwnerSeq
	r = c33Norm(r)
	if ex, ok := s.active[id]; ok {
		if r.LastSeenUnix < ex.LastSeenUnix {
			r.LastSeenUnix = ex.LastSeenUnix
		}
		s.active[id] = r
		return "refresh"
	}
	if len(s.conflictsOf(r)) != 0 {
		return "conflict-ignored"
	}
	s.active[id] = r
	return "recreate"
}

func (s *c33Slot) expire(now time.Time, ttl time.Duration) int {
	n := 0
	for id, r := range s.active {
		// idle for longer than ttl on the caller's logical clock
		if now.Sub(time.Unix(c33Seen(r), 0)) > ttl {
			delete(s.active, id)
			n++
		}
	}
	return n
}

func (s *c33Slot) routesOf(uid string) []presence.Route {
	var out []presence.Route
	for id, r := range s.active {
		if id.UID == uid {
			out = append(out, r)
		}
	}
	sort.Slice(out, func(i, j int) bool { return c33IdentLess(out[i].Identity(), out[j].Identity()) })
	return out
}

// world = model + the two directories under test ----------------------------

type c33World struct {
	r        *verifkit.Run
	rng      *rand.Rand
	local    uint64
	dirs     [2]*presence.Directory
	cur      int // index of the directory a call closure is running against
	slots    map[uint16]*c33Slot
	lastTgt  map[uint16]presence.RouteTarget   // last target ever installed per hash slot
	prevTgts map[uint16][]presence.RouteTarget // earlier incarnations
	// tomb is the statement-level tracker for clause (2): per hash slot
	// incarnation, identity -> highest accepted unregister sequence.
	tomb       map[uint16]map[presence.RouteIdentity]uint64
	lastSeq    map[presence.RouteIdentity]uint64
	clk        int64
	touchTotal uint64
	expTotal   uint64
	log        []string
	shape      strings.Builder
	failed     bool
	// per-history non-triviality facts
	staleRejectedNonEmpty, tombFenced, properExpiry, committed, multiRoute int
	// deadPrev keeps tokens issued by earlier authority incarnations of a hash slot
	deadPrev map[uint16][][2]presence.PendingRouteToken
	// purgedTokenTried counts commit/abort attempts on a token whose candidate
	// was purged by an unregister
	purgedTokenTried int
}

func (w *c33World) logf(format string, a ...any) {
	w.log = append(w.log, fmt.Sprintf(format, a...))
}

func (w *c33World) fail(sig string, detail map[string]any) {
	if w.failed {
		return
	}
	w.failed = true
	if detail == nil {
		detail = map[string]any{}
	}
	hist := w.log
	if len(hist) > 80 {
		hist = hist[len(hist)-80:]
	}
	detail["history"] = hist
	detail["local_node"] = w.local
	w.r.Violation(sig, detail)
}

func (w *c33World) valid(t presence.RouteTarget) *c33Slot {
	if w.local != 0 && t.LeaderNodeID != w.local {
		return nil
	}
	s := w.slots[t.HashSlot]
	if s == nil || !c33SameAuthority(s.target, t) {
		return nil
	}
	return s
}

// pickTarget returns a target plus a label describing how it was derived.
func (w *c33World) pickTarget(prefer ...uint16) (presence.RouteTarget, string) {
	h := c33HashSlots[w.rng.IntN(len(c33HashSlots))]
	if len(prefer) > 0 && w.rng.IntN(5) != 0 {
		h = prefer[0]
	}
	// prefer installed slots
	if w.slots[h] == nil && w.rng.IntN(4) != 0 {
		for _, hh := range c33HashSlots {
			if w.slots[hh] != nil {
				h = hh
				break
			}
		}
	}
	base, ok := w.lastTgt[h]
	if s := w.slots[h]; s != nil {
		base = s.target
		ok = true
	}
	if !ok {
		base = presence.RouteTarget{HashSlot: h, SlotID: 1, LeaderNodeID: w.leader(), LeaderTerm: 1, ConfigEpoch: 1}
	}
	if w.rng.IntN(100) < 68 {
		return base, "current"
	}
	t := base
	switch w.rng.IntN(9) {
	case 0:
		others := []uint16{3, 35, 7, 9, 67}
		for {
			t.HashSlot = others[w.rng.IntN(len(others))]
			if t.HashSlot != base.HashSlot {
				break
			}
		}
		return t, "HashSlot"
	case 1:
		t.SlotID += uint32(1 + w.rng.IntN(2))
		return t, "SlotID"
	case 2:
		if w.rng.IntN(2) == 0 {
			t.LeaderNodeID++
		} else {
			t.LeaderNodeID--
		}
		return t, "LeaderNodeID"
	case 3:
		if w.rng.IntN(2) == 0 || t.LeaderTerm == 0 {
			t.LeaderTerm++
		} else {
			t.LeaderTerm--
		}
		return t, "LeaderTerm"
	case 4:
		if w.rng.IntN(2) == 0 || t.ConfigEpoch == 0 {
			t.ConfigEpoch++
		} else {
			t.ConfigEpoch--
		}
		return t, "ConfigEpoch"
	case 5:
		if p := w.prevTgts[h]; len(p) > 0 {
			return p[w.rng.IntN(len(p))], "previous-incarnation"
		}
		t.LeaderTerm++
		return t, "LeaderTerm"
	case 6:
		t.RouteRevision += uint64(1 + w.rng.IntN(3))
		return t, "RouteRevision-only"
	case 7:
		t.AuthorityEpoch += uint64(1 + w.rng.IntN(3))
		return t, "AuthorityEpoch-only"
	default:
		if t.RouteRevision > 0 {
			t.RouteRevision--
		} else {
			t.RouteRevision++
		}
		return t, "RouteRevision-only"
	}
}

func (w *c33World) leader() uint64 {
	if w.local != 0 {
		return w.local
	}
	return uint64(9 + w.rng.IntN(2))
}

func (w *c33World) genRoute() presence.Route {
	rng := w.rng
	r := presence.Route{
		UID:         c33UIDs[rng.IntN(len(c33UIDs))],
		OwnerNodeID: uint64(1 + rng.IntN(2)),
		OwnerBootID: 7,
		SessionID:   uint64(1 + rng.IntN(3)),
		DeviceID:    []string{"d1", "d2"}[rng.IntN(2)],
		DeviceFlag:  uint8(rng.IntN(2)),
		Listener:    []string{"tcp", "ws"}[rng.IntN(2)],
	}
	if rng.IntN(7) == 0 {
		r.OwnerBootID = 8
	}
	switch x := rng.IntN(100); {
	case x < 55:
		r.DeviceLevel = 0
	case x < 80:
		r.DeviceLevel = 1
	default:
		r.DeviceLevel = 2
	}
	id := r.Identity()
	last := w.lastSeq[id]
	switch x := rng.IntN(10); {
	case x < 4:
		r.OwnerSeq = last + 1
	case x < 7:
		r.OwnerSeq = last
	case x < 8:
		r.OwnerSeq = last + 2
	default:
		if last > 1 {
			r.OwnerSeq = last - 1
		} else {
			r.OwnerSeq = 1
		}
	}
	if r.OwnerSeq == 0 {
		r.OwnerSeq = 1
	}
	if r.OwnerSeq > last {
		w.lastSeq[id] = r.OwnerSeq
	}
	r.ConnectedUnix = w.clk - int64([]int{0, 0, 0, 1, 2}[rng.IntN(5)])
	if rng.IntN(2) == 0 {
		r.LastSeenUnix = w.clk
	}
	return r
}

// a route aimed at a tombstoned identity at or below the tombstone
func (w *c33World) genTombReplay(s *c33Slot) (presence.Route, bool) {
	if len(s.tomb) == 0 {
		return presence.Route{}, false
	}
	ids := make([]presence.RouteIdentity, 0, len(s.tomb))
	for id := range s.tomb {
		ids = append(ids, id)
	}
	sort.Slice(ids, func(i, j int) bool { return c33IdentLess(ids[i], ids[j]) })
	id := ids[w.rng.IntN(len(ids))]
	r := w.genRoute()
	r.UID, r.OwnerNodeID, r.OwnerBootID, r.SessionID = id.UID, id.OwnerNodeID, id.OwnerBootID, id.SessionID
	t := s.tomb[id]
	switch w.rng.IntN(4) {
	case 0:
		r.OwnerSeq = t + 1 // legitimately newer
	case 1:
		if t > 1 {
			r.OwnerSeq = t - 1
		} else {
			r.OwnerSeq = t
		}
	default:
		r.OwnerSeq = t
	}
	if r.OwnerSeq > w.lastSeq[id] {
		w.lastSeq[id] = r.OwnerSeq
	}
	return r, true
}

func c33RouteStr(r presence.Route) string {
	return fmt.Sprintf("{%s n%d b%d s%d seq%d dev=%s/%d/%d %s conn=%d seen=%d}", r.UID, r.OwnerNodeID, r.OwnerBootID, r.SessionID,
		r.OwnerSeq, r.DeviceID, r.DeviceFlag, r.DeviceLevel, r.Listener, r.ConnectedUnix-c33BaseUnix, c33RelSeen(r.LastSeenUnix))
}

func c33RelSeen(v int64) int64 {
	if v == 0 {
		return 0
	}
	return v - c33BaseUnix
}

func c33TgtStr(t presence.RouteTarget) string {
	return fmt.Sprintf("[h%d slot%d ldr%d term%d cfg%d rev%d ae%d]", t.HashSlot, t.SlotID, t.LeaderNodeID, t.LeaderTerm, t.ConfigEpoch, t.RouteRevision, t.AuthorityEpoch)
}

func (w *c33World) snapshots() [2]presence.Snapshot {
	return [2]presence.Snapshot{w.dirs[0].Snapshot(), w.dirs[1].Snapshot()}
}

func (w *c33World) modelActive() int {
	n := 0
	for _, s := range w.slots {
		n += len(s.active)
	}
	return n
}

// checkState compares the complete observable state with the model and runs
// the determinism and tombstone clauses on everything that is returned.
func (w *c33World) checkState(after string) {
	if w.failed {
		return
	}
	wantActive := 0
	wantBySlot := map[uint16]int{}
	wantBuckets := 0
	for _, h := range c33HashSlots {
		s := w.slots[h]
		if s == nil {
			if t, ok := w.lastTgt[h]; ok {
				for di, d := range w.dirs {
					rs, err := d.EndpointsByUID(t, c33UIDs[0])
					if c33Class(err) != c33NotLeader || len(rs) != 0 {
						w.fail("stale-accepted:lookup-after-loss", map[string]any{"dir": di, "target": c33TgtStr(t), "err": fmt.Sprint(err), "routes": len(rs), "after": after})
						return
					}
				}
			}
			continue
		}
		wantActive += len(s.active)
		if len(s.active) > 0 {
			wantBySlot[h] = len(s.active)
		}
		seen := map[int64]bool{}
		for _, r := range s.active {
			seen[c33Seen(r)] = true
		}
		wantBuckets += len(seen)
		for _, uid := range c33UIDs {
			want := s.routesOf(uid)
			if len(want) >= 2 {
				w.multiRoute++
			}
			var first []presence.Route
			for di, d := range w.dirs {
				for rep := 0; rep < 2; rep++ {
					got, err := d.EndpointsByUID(s.target, uid)
					if err != nil {
						w.fail("model-mismatch:current-target-rejected", map[string]any{"dir": di, "target": c33TgtStr(s.target), "err": err.Error(), "after": after})
						return
					}
					// clause (2): nothing visible at or below its unregister sequence
					for _, g := range got {
						if t, ok := w.tomb[h][g.Identity()]; ok && g.OwnerSeq <= t {
							w.fail("tombstone-resurrected:after-"+after, map[string]any{"dir": di, "hash_slot": h, "route": c33RouteStr(g), "unregister_seq": t})
							return
						}
						if g.UID != uid {
							w.fail("lookup-foreign-uid:after-"+after, map[string]any{"dir": di, "uid": uid, "route": c33RouteStr(g)})
							return
						}
					}
					// clause (4): same order on every call and on both directories
					if di == 0 && rep == 0 {
						first = got
					} else if !c33RoutesEqual(first, got) {
						w.fail("lookup-order-nondeterministic", map[string]any{"dir": di, "repeat": rep, "uid": uid, "first": c33RoutesStr(first), "got": c33RoutesStr(got), "after": after})
						return
					}
				}
			}
			// same multiset as the model
			sorted := append([]presence.Route(nil), first...)
			sort.Slice(sorted, func(i, j int) bool { return c33IdentLess(sorted[i].Identity(), sorted[j].Identity()) })
			if !c33RoutesEqual(sorted, want) {
				kind := "field"
				if len(sorted) < len(want) {
					kind = "missing"
				} else if len(sorted) > len(want) {
					kind = "extra"
				}
				w.fail("lookup-mismatch:after-"+after+":"+kind, map[string]any{"hash_slot": h, "uid": uid, "got": c33RoutesStr(sorted), "want": c33RoutesStr(want)})
				return
			}
		}
	}
	for di, snap := range w.snapshots() {
		if snap.Active != wantActive || !reflect.DeepEqual(snap.ByHashSlot, wantBySlot) {
			w.fail("snapshot-mismatch:active:after-"+after, map[string]any{"dir": di, "got_active": snap.Active, "want_active": wantActive, "got_by_slot": fmt.Sprint(snap.ByHashSlot), "want_by_slot": fmt.Sprint(wantBySlot)})
			return
		}
		if snap.TouchRoutesTotal != w.touchTotal || snap.ExpiredRoutesTotal != w.expTotal {
			w.fail("model-mismatch:snapshot-counters:after-"+after, map[string]any{"dir": di, "touch": snap.TouchRoutesTotal, "want_touch": w.touchTotal, "expired": snap.ExpiredRoutesTotal, "want_expired": w.expTotal})
			return
		}
		// FLOW.md: an indexed identity belongs to exactly one bucket and every
		// timestamped active route is indexed.
		if snap.ExpiryIndexRoutes != wantActive || snap.ExpiryIndexBuckets != wantBuckets {
			w.fail("model-mismatch:expiry-index:after-"+after, map[string]any{"dir": di, "index_routes": snap.ExpiryIndexRoutes, "want_routes": wantActive, "buckets": snap.ExpiryIndexBuckets, "want_buckets": wantBuckets})
			return
		}
	}
}

func c33RoutesEqual(a, b []presence.Route) bool {
	if len(a) != len(b) {
		return false
	}
	for i := range a {
		if a[i] != b[i] {
			return false
		}
	}
	return true
}

func c33RoutesStr(rs []presence.Route) []string {
	out := make([]string, len(rs))
	for i, r := range rs {
		out[i] = c33RouteStr(r)
	}
	return out
}

// staleGuard runs an operation whose target the model considers stale on both
// directories and decides clause (1): ErrNotLeader, Snapshot unchanged, and
// the full lookup state still equal to the untouched model.
func (w *c33World) staleGuard(kind, label string, t presence.RouteTarget, call func(d *presence.Directory) error) {
	before := w.snapshots()
	nonEmpty := w.modelActive() > 0
	for di, d := range w.dirs {
		w.cur = di
		err := call(d)
		if c33Class(err) != c33NotLeader {
			w.fail("stale-accepted:"+kind+":"+label, map[string]any{"dir": di, "target": c33TgtStr(t), "err": fmt.Sprint(err)})
			return
		}
	}
	after := w.snapshots()
	for di := range w.dirs {
		if !reflect.DeepEqual(before[di], after[di]) {
			w.fail("stale-mutated-snapshot:"+kind+":"+label, map[string]any{"dir": di, "target": c33TgtStr(t), "before": fmt.Sprintf("%+v", before[di]), "after": fmt.Sprintf("%+v", after[di])})
			return
		}
	}
	w.r.Count("stale_rejected."+kind, 1)
	w.r.Count("stale_label."+label, 1)
	if nonEmpty {
		w.staleRejectedNonEmpty++
	}
	w.shape.WriteString("x")
	// full state must still equal the untouched model
	w.checkState("stale-" + kind)
}

// errBoth runs a valid-target operation on both directories; the two error
// classes must agree (same history => same outcome).
func (w *c33World) errBoth(call func(d *presence.Directory) error) ([2]error, bool) {
	var errs [2]error
	for di, d := range w.dirs {
		w.cur = di
		errs[di] = call(d)
	}
	return errs, c33Class(errs[0]) == c33Class(errs[1])
}

func (w *c33World) step(opIdx int) {
	rng := w.rng
	w.clk += int64(rng.IntN(3))
	x := rng.IntN(100)
	switch {
	case x < 8 || len(w.slots) == 0 && x < 60:
		w.opBecome()
	case x < 11:
		w.opLose()
	case x < 37:
		w.opRegister(nil)
	case x < 43:
		w.opRetryRegister()
	case x < 52:
		w.opCommitAbort(true)
	case x < 56:
		w.opCommitAbort(false)
	case x < 60:
		w.opDrain()
	case x < 71:
		w.opUnregister()
	case x < 86:
		w.opTouch()
	case x < 93:
		w.opExpire()
	default:
		w.opLookup()
	}
}

func (w *c33World) resetSlotTracking(h uint16) {
	delete(w.tomb, h)
}

// archiveTokens remembers every token of an authority incarnation that is
// about to be dropped, so later steps can replay them against its successors.
func (w *c33World) archiveTokens(h uint16, s *c33Slot) {
	for _, p := range s.pending {
		w.deadPrev[h] = append(w.deadPrev[h], p.tokens)
	}
	w.deadPrev[h] = append(w.deadPrev[h], s.dead...)
	if n := len(w.deadPrev[h]); n > 24 {
		w.deadPrev[h] = w.deadPrev[h][n-24:]
	}
}

func (w *c33World) opBecome() {
	rng := w.rng
	h := c33HashSlots[rng.IntN(len(c33HashSlots))]
	cur := w.slots[h]
	var t presence.RouteTarget
	mode := "fresh"
	if base, ok := w.lastTgt[h]; ok {
		t = base
		if cur != nil {
			t = cur.target
		}
		switch y := rng.IntN(10); {
		case y < 3 && cur != nil: // revision-only update (higher, lower or equal)
			mode = "revision-only"
			t.RouteRevision = uint64(int(t.RouteRevision) + rng.IntN(4) - 1)
			if int64(t.RouteRevision) < 0 {
				t.RouteRevision = 0
			}
			t.AuthorityEpoch += uint64(rng.IntN(2))
		case y < 7:
			mode = "new-term"
			t.LeaderTerm++
			t.RouteRevision += uint64(rng.IntN(2))
			if w.local == 0 && rng.IntN(2) == 0 {
				t.LeaderNodeID = w.leader()
			}
		case y < 8:
			mode = "new-config"
			t.ConfigEpoch++
		case y < 9:
			mode = "new-slot-id"
			t.SlotID = 3 - t.SlotID
			if t.SlotID == 0 || t.SlotID > 2 {
				t.SlotID = 1
			}
		default:
			mode = "older-term"
			if t.LeaderTerm > 1 {
				t.LeaderTerm--
			} else {
				t.LeaderTerm++
			}
		}
	} else {
		t = presence.RouteTarget{HashSlot: h, SlotID: uint32(1 + rng.IntN(2)), LeaderNodeID: w.leader(), LeaderTerm: uint64(1 + rng.IntN(2)),
			ConfigEpoch: uint64(1 + rng.IntN(2)), RouteRevision: uint64(rng.IntN(4)), AuthorityEpoch: uint64(rng.IntN(3))}
		// several hash slots commonly share the whole raft identity
		if o := w.slots[c33HashSlots[0]]; o != nil && rng.IntN(2) == 0 {
			t = o.target
			t.HashSlot = h
		}
	}
	w.logf("Become %s (%s)", c33TgtStr(t), mode)
	for _, d := range w.dirs {
		d.BecomeAuthority(t)
	}
	if cur != nil && c33SameAuthority(cur.target, t) {
		if t.RouteRevision >= cur.target.RouteRevision {
			cur.target = t
		}
		w.r.Count("become.same_identity", 1)
		w.shape.WriteString("b")
	} else {
		if cur != nil {
			w.prevTgts[h] = append(w.prevTgts[h], cur.target)
			w.archiveTokens(h, cur)
			w.r.Count("become.replaced_incarnation", 1)
		}
		w.slots[h] = c33NewSlot(t)
		w.resetSlotTracking(h)
		w.r.Count("become.fresh", 1)
		w.shape.WriteString("B")
	}
	w.lastTgt[h] = w.slots[h].target
	w.checkState("become")
}

func (w *c33World) opLose() {
	h := c33HashSlots[w.rng.IntN(len(c33HashSlots))]
	w.logf("Lose h%d", h)
	for _, d := range w.dirs {
		d.LoseAuthority(h)
	}
	if s := w.slots[h]; s != nil {
		w.prevTgts[h] = append(w.prevTgts[h], s.target)
		w.archiveTokens(h, s)
		delete(w.slots, h)
		w.resetSlotTracking(h)
		w.r.Count("lose.installed", 1)
		w.shape.WriteString("L")
	}
	w.checkState("lose")
}

// slotWithPending returns a hash slot that currently has pending candidates.
func (w *c33World) slotWithPending() []uint16 {
	var hs []uint16
	for _, h := range c33HashSlots {
		if s := w.slots[h]; s != nil && len(s.pending) > 0 {
			hs = append(hs, h)
		}
	}
	if len(hs) == 0 {
		return nil
	}
	return []uint16{hs[w.rng.IntN(len(hs))]}
}

// opRetryRegister re-registers the identity of an outstanding conflict
// candidate (a client/owner retry): same OwnerSeq, a newer one, an older one,
// or changed device metadata — producing several pending tokens per identity.
func (w *c33World) opRetryRegister() {
	hs := w.slotWithPending()
	if hs == nil {
		w.opRegister(nil)
		return
	}
	s := w.slots[hs[0]]
	p := s.pending[w.rng.IntN(len(s.pending))]
	r := p.route
	r.ConnectedUnix, r.LastSeenUnix = w.clk, 0
	switch w.rng.IntN(10) {
	case 0, 1:
		r.OwnerSeq++
	case 2:
		if r.OwnerSeq > 1 {
			r.OwnerSeq--
		}
	case 3:
		r.Listener = "retry"
	case 4:
		r.DeviceID = []string{"d1", "d2"}[w.rng.IntN(2)]
	}
	if r.OwnerSeq > w.lastSeq[r.Identity()] {
		w.lastSeq[r.Identity()] = r.OwnerSeq
	}
	w.r.Count("register.retry_of_pending", 1)
	w.opRegister(&r, hs[0])
}

func (w *c33World) opRegister(forced *presence.Route, prefer ...uint16) {
	t, label := w.pickTarget(prefer...)
	s := w.valid(t)
	r := w.genRoute()
	if forced != nil {
		r = *forced
	} else if s != nil && w.rng.IntN(6) == 0 {
		if rr, ok := w.genTombReplay(s); ok {
			r = rr
		}
	}
	w.logf("Register %s %s %s", c33TgtStr(t), label, c33RouteStr(r))
	if s == nil {
		w.staleGuard("register", label, t, func(d *presence.Directory) error { _, err := d.RegisterRoute(t, r); return err })
		return
	}
	var res [2]presence.RegisterResult
	errs, same := w.errBoth(func(d *presence.Directory) error {
		var err error
		res[w.cur], err = d.RegisterRoute(t, r)
		return err
	})
	if !same {
		w.fail("directories-diverge:register", map[string]any{"err0": fmt.Sprint(errs[0]), "err1": fmt.Sprint(errs[1])})
		return
	}
	if c33Class(errs[0]) == c33NotLeader {
		w.nonFence("register", label, t)
		return
	}
	wasTomb := false
	if tb, ok := s.tomb[r.Identity()]; ok && r.OwnerSeq <= tb {
		wasTomb = true
	}
	want, p := s.register(r)
	if c33Class(errs[0]) != want {
		w.fail("model-mismatch:register-error", map[string]any{"got": fmt.Sprint(errs[0]), "want": want.String()})
		return
	}
	if wasTomb {
		w.tombFenced++
		w.r.Count("tombstone.register_fenced", 1)
	}
	for di := range w.dirs {
		if (res[di].PendingToken != "") != (p != nil) {
			w.fail("model-mismatch:register-pending", map[string]any{"dir": di, "token": string(res[di].PendingToken), "model_pending": p != nil})
			return
		}
		if p != nil {
			p.tokens[di] = res[di].PendingToken
			if len(res[di].Actions) != len(p.conflicts) {
				w.fail("model-mismatch:register-actions", map[string]any{"dir": di, "actions": len(res[di].Actions), "conflicts": len(p.conflicts)})
				return
			}
		}
	}
	switch {
	case want != c33OK:
		w.r.Count("register.stale_route", 1)
		w.shape.WriteString("s")
	case p != nil:
		w.r.Count("register.pending", 1)
		same := 0
		for _, q := range s.pending {
			if q.route.Identity() == p.route.Identity() {
				same++
			}
		}
		if same >= 2 {
			w.r.Count("register.pending_same_identity_again", 1)
			w.r.Max("max_pending_per_identity", same)
		}
		w.shape.WriteString("p")
	default:
		w.r.Count("register.active", 1)
		w.shape.WriteString("r")
	}
	w.checkState("register")
}

// nonFence handles ErrNotLeader for a target whose authority identity equals
// the installed one.
func (w *c33World) nonFence(kind, label string, t presence.RouteTarget) {
	// A target equal to the installed authority identity was rejected. For
	// the exact installed target that makes the directory unusable; for
	// RouteRevision/AuthorityEpoch-only variants the statement is silent.
	if s := w.valid(t); s != nil && s.target == t {
		w.fail("model-mismatch:current-target-rejected:"+kind, map[string]any{"target": c33TgtStr(t), "label": label})
		return
	}
	w.r.Count("nonfence_variant_rejected."+label, 1)
	w.checkState("nonfence-" + kind)
}

// c33Tok is one commit/abort subject: a live candidate of the model, or a
// token the model considers dead.
type c33Tok struct {
	p    *c33Pending
	toks [2]presence.PendingRouteToken
	kind string // live | dead | purged | prev-incarnation | bogus
}

// collides reports whether a dead token string names a live candidate of s
// (token counters restart with every authority incarnation).
func (s *c33Slot) collides(toks [2]presence.PendingRouteToken) bool {
	for _, q := range s.pending {
		if q.tokens[0] == toks[0] || q.tokens[1] == toks[1] {
			return true
		}
	}
	return false
}

func (w *c33World) pickTok(src *c33Slot, h uint16) c33Tok {
	bogus := func() c33Tok {
		b := presence.PendingRouteToken([]string{"", "999", "0"}[w.rng.IntN(3)])
		return c33Tok{toks: [2]presence.PendingRouteToken{b, b}, kind: "bogus"}
	}
	if src == nil {
		return bogus()
	}
	x := w.rng.IntN(100)
	switch {
	case x < 55 && len(src.pending) > 0:
		p := src.pending[w.rng.IntN(len(src.pending))]
		return c33Tok{p: p, toks: p.tokens, kind: "live"}
	case x < 82 && len(src.dead) > 0:
		// newest dead tokens first: they are the ones an unregister just purged
		n := len(src.dead)
		i := n - 1 - w.rng.IntN(min(n, 4))
		t := src.dead[i]
		k := "dead"
		if src.purged[t[0]] {
			k = "purged"
		}
		return c33Tok{toks: t, kind: k}
	case x < 90 && len(w.deadPrev[h]) > 0:
		t := w.deadPrev[h][w.rng.IntN(len(w.deadPrev[h]))]
		if !src.collides(t) {
			return c33Tok{toks: t, kind: "prev-incarnation"}
		}
	case len(src.pending) > 0 && x < 95:
		p := src.pending[w.rng.IntN(len(src.pending))]
		return c33Tok{p: p, toks: p.tokens, kind: "live"}
	}
	return bogus()
}

func (w *c33World) opCommitAbort(commit bool) {
	t, label := w.pickTarget(w.slotWithPending()...)
	s := w.valid(t)
	src := s
	if src == nil {
		src = w.slots[t.HashSlot]
	}
	w.commitAbortToken(commit, t, label, s, w.pickTok(src, t.HashSlot))
}

// opDrain commits/aborts EVERY outstanding token of one slot — live candidates
// and the tokens the model dropped — in PRNG order.
func (w *c33World) opDrain() {
	hs := w.slotWithPending()
	if hs == nil {
		for _, h := range c33HashSlots {
			if s := w.slots[h]; s != nil && len(s.dead) > 0 {
				hs = []uint16{h}
				break
			}
		}
	}
	if hs == nil {
		w.opCommitAbort(true)
		return
	}
	h := hs[0]
	s := w.slots[h]
	var items []c33Tok
	for _, p := range s.pending {
		items = append(items, c33Tok{p: p, toks: p.tokens, kind: "live"})
	}
	nd := len(s.dead)
	for i := nd - 1; i >= 0 && i >= nd-5; i-- {
		k := "dead"
		if s.purged[s.dead[i][0]] {
			k = "purged"
		}
		items = append(items, c33Tok{toks: s.dead[i], kind: k})
	}
	for _, t := range w.deadPrev[h] {
		if len(items) < 10 && !s.collides(t) && w.rng.IntN(3) == 0 {
			items = append(items, c33Tok{toks: t, kind: "prev-incarnation"})
		}
	}
	w.rng.Shuffle(len(items), func(i, j int) { items[i], items[j] = items[j], items[i] })
	w.r.Count("drain.calls", 1)
	w.r.Max("max_drain_tokens", len(items))
	for _, it := range items {
		if w.failed || w.slots[h] != s {
			return
		}
		if it.kind == "live" {
			// an earlier commit of this drain may have superseded/dropped it
			alive := false
			for _, q := range s.pending {
				if q == it.p {
					alive = true
				}
			}
			if !alive {
				it = c33Tok{toks: it.toks, kind: "dead"}
			}
		}
		w.commitAbortToken(w.rng.IntN(10) < 7, s.target, "current", s, it)
	}
}

func (w *c33World) commitAbortToken(commit bool, t presence.RouteTarget, label string, s *c33Slot, tk c33Tok) {
	kind := "abort"
	if commit {
		kind = "commit"
	}
	toks := tk.toks
	w.logf("%s %s %s token=%q (%s)", kind, c33TgtStr(t), label, toks[0], tk.kind)
	call := func(d *presence.Directory) error {
		if commit {
			return d.CommitRoute(t, toks[w.cur])
		}
		return d.AbortRoute(t, toks[w.cur])
	}
	if s == nil {
		w.staleGuard(kind, label, t, call)
		return
	}
	errs, same := w.errBoth(call)
	if !same && tk.p != nil {
		w.fail("directories-diverge:"+kind, map[string]any{"err0": fmt.Sprint(errs[0]), "err1": fmt.Sprint(errs[1])})
		return
	}
	got := c33Class(errs[0])
	if got == c33NotLeader || c33Class(errs[1]) == c33NotLeader {
		if !same {
			w.fail("directories-diverge:"+kind, map[string]any{"err0": fmt.Sprint(errs[0]), "err1": fmt.Sprint(errs[1])})
			return
		}
		w.nonFence(kind, label, t)
		return
	}
	if tk.p == nil {
		if !same {
			// Only for tokens the model does not know: the statement does not
			// govern what a leftover candidate answers, only that nothing
			// becomes visible; each answer is judged on its own below.
			w.r.Count(kind+".dead_token_answers_differ_between_directories", 1)
		}
		// A token the model does not know. Whatever the directory answers,
		// nothing may become visible: the state comparison and the tombstone
		// tracker decide first (clause 2 covers routes promoted by CommitRoute).
		if tk.kind == "purged" {
			w.purgedTokenTried++
		}
		w.r.Count(kind+"."+tk.kind+"_token."+got.String(), 1)
		w.shape.WriteString(kind[:1] + "d")
		w.checkState(kind)
		if w.failed {
			return
		}
		// The documented answer is ErrRouteNotReady; ErrStaleRoute (commit) or a
		// silent drop (abort) of a leftover candidate are also harmless. A
		// successful commit that changed nothing observable is still wrong.
		for di := range errs {
			g := c33Class(errs[di])
			ok := g == c33NotReady || (commit && g == c33Stale) || (!commit && g == c33OK && tk.kind != "bogus")
			if !ok {
				w.fail("model-mismatch:"+kind+"-of-dead-token-"+g.String(), map[string]any{"dir": di, "token": string(toks[di]), "token_kind": tk.kind})
				return
			}
		}
		return
	}
	var want c33Err
	if commit {
		want = s.commit(tk.p)
		if want == c33OK {
			w.committed++
		}
	} else {
		s.dropPending(tk.p)
		want = c33OK
	}
	if got != want {
		w.fail("model-mismatch:"+kind+"-error", map[string]any{"got": fmt.Sprint(errs[0]), "want": want.String()})
		return
	}
	w.r.Count(kind+"."+want.String(), 1)
	if commit {
		w.shape.WriteString("c" + want.String()[:1])
	} else {
		w.shape.WriteString("a" + want.String()[:1])
	}
	w.checkState(kind)
}

func (w *c33World) opUnregister() {
	var prefer []uint16
	if w.rng.IntN(3) == 0 {
		prefer = w.slotWithPending()
	}
	t, label := w.pickTarget(prefer...)
	s := w.valid(t)
	src := s
	if src == nil {
		src = w.slots[t.HashSlot]
	}
	var id presence.RouteIdentity
	var seq uint64
	picked := false
	fromPending := false
	if src != nil {
		y := w.rng.IntN(10)
		if prefer != nil && len(src.pending) > 0 {
			y = 6 // aim at an outstanding candidate (one of possibly several per identity)
		}
		switch {
		case y < 6 && len(src.active) > 0:
			rs := make([]presence.Route, 0, len(src.active))
			for _, r := range src.active {
				rs = append(rs, r)
			}
			sort.Slice(rs, func(i, j int) bool { return c33IdentLess(rs[i].Identity(), rs[j].Identity()) })
			r := rs[w.rng.IntN(len(rs))]
			id, seq, picked = r.Identity(), r.OwnerSeq, true
		case y < 8 && len(src.pending) > 0:
			r := src.pending[w.rng.IntN(len(src.pending))].route
			id, seq, picked, fromPending = r.Identity(), r.OwnerSeq, true, true
		}
	}
	if !picked {
		r := w.genRoute()
		id, seq = r.Identity(), r.OwnerSeq
	}
	vary := 6
	if fromPending {
		vary = 4 // below / equal / above the chosen candidate's OwnerSeq
	}
	switch w.rng.IntN(vary) {
	case 0:
		seq++
	case 1:
		if seq > 1 {
			seq--
		}
	}
	if seq == 0 {
		seq = 1
	}
	w.logf("Unregister %s %s {%s n%d b%d s%d} seq=%d", c33TgtStr(t), label, id.UID, id.OwnerNodeID, id.OwnerBootID, id.SessionID, seq)
	call := func(d *presence.Directory) error { return d.UnregisterRoute(t, id, seq) }
	if s == nil {
		w.staleGuard("unregister", label, t, call)
		return
	}
	errs, same := w.errBoth(call)
	if !same {
		w.fail("directories-diverge:unregister", map[string]any{"err0": fmt.Sprint(errs[0]), "err1": fmt.Sprint(errs[1])})
		return
	}
	if c33Class(errs[0]) == c33NotLeader {
		w.nonFence("unregister", label, t)
		return
	}
	if errs[0] != nil {
		// no failure mode is documented for a fenced unregister
		w.fail("model-mismatch:unregister-error", map[string]any{"got": errs[0].Error()})
		return
	}
	_, wasActive := s.active[id]
	nPend := len(s.pending)
	s.unregister(id, seq)
	purged := nPend - len(s.pending)
	if purged > 0 {
		w.r.Count("unregister.purged_pending", purged)
		if purged >= 2 {
			w.r.Count("unregister.purged_several_candidates", 1)
		}
		for _, q := range s.pending {
			if q.route.Identity() == id {
				w.r.Count("unregister.candidate_above_seq_survives", 1)
				break
			}
		}
	}
	// statement-level tracker (independent of the model's own tombstones)
	if w.tomb[t.HashSlot] == nil {
		w.tomb[t.HashSlot] = map[presence.RouteIdentity]uint64{}
	}
	if seq > w.tomb[t.HashSlot][id] {
		w.tomb[t.HashSlot][id] = seq
	}
	if seq > w.lastSeq[id] {
		w.lastSeq[id] = seq
	}
	_, stillActive := s.active[id]
	switch {
	case wasActive && !stillActive:
		w.r.Count("unregister.removed_active", 1)
		w.shape.WriteString("U")
	case wasActive:
		w.r.Count("unregister.older_than_active", 1)
		w.shape.WriteString("u")
	default:
		w.r.Count("unregister.tombstone_only", 1)
		w.shape.WriteString("t")
	}
	w.checkState("unregister")
	// an owner that unregisters while conflict resolution is still in flight:
	// the completion callbacks of every purged candidate arrive afterwards
	if purged > 0 && w.rng.IntN(2) == 0 {
		toks := append([][2]presence.PendingRouteToken(nil), s.dead[len(s.dead)-purged:]...)
		w.rng.Shuffle(len(toks), func(i, j int) { toks[i], toks[j] = toks[j], toks[i] })
		for _, tk := range toks {
			if w.failed || w.slots[t.HashSlot] != s {
				return
			}
			w.commitAbortToken(w.rng.IntN(10) < 8, s.target, "current", s, c33Tok{toks: tk, kind: "purged"})
		}
	}
}

func (w *c33World) opTouch() {
	t, label := w.pickTarget()
	s := w.valid(t)
	src := s
	if src == nil {
		src = w.slots[t.HashSlot]
	}
	n := 1 + w.rng.IntN(3)
	routes := make([]presence.Route, 0, n)
	for i := 0; i < n; i++ {
		y := w.rng.IntN(10)
		switch {
		case src != nil && y < 5 && len(src.active) > 0:
			rs := make([]presence.Route, 0, len(src.active))
			for _, r := range src.active {
				rs = append(rs, r)
			}
			sort.Slice(rs, func(i, j int) bool { return c33IdentLess(rs[i].Identity(), rs[j].Identity()) })
			r := rs[w.rng.IntN(len(rs))]
			switch w.rng.IntN(6) {
			case 0: // delayed heartbeat carrying an older activity time
				r.LastSeenUnix = w.clk - int64(1+w.rng.IntN(4))
			case 1: // heartbeat without explicit activity time
				r.LastSeenUnix = 0
			default:
				r.LastSeenUnix = w.clk
			}
			switch w.rng.IntN(8) {
			case 0:
				r.OwnerSeq++
				if r.OwnerSeq > w.lastSeq[r.Identity()] {
					w.lastSeq[r.Identity()] = r.OwnerSeq
				}
			case 1:
				if r.OwnerSeq > 1 {
					r.OwnerSeq--
				}
			}
			routes = append(routes, r)
		case src != nil && y < 7:
			if r, ok := w.genTombReplay(src); ok {
				r.LastSeenUnix = w.clk
				routes = append(routes, r)
				continue
			}
			routes = append(routes, w.genRoute())
		default:
			routes = append(routes, w.genRoute())
		}
	}
	strs := c33RoutesStr(routes)
	w.logf("Touch %s %s %v", c33TgtStr(t), label, strs)
	call := func(d *presence.Directory) error {
		return d.TouchRoutes(t, append([]presence.Route(nil), routes...))
	}
	if s == nil {
		w.staleGuard("touch", label, t, call)
		return
	}
	errs, same := w.errBoth(call)
	if !same {
		w.fail("directories-diverge:touch", map[string]any{"err0": fmt.Sprint(errs[0]), "err1": fmt.Sprint(errs[1])})
		return
	}
	if c33Class(errs[0]) == c33NotLeader {
		w.nonFence("touch", label, t)
		return
	}
	if errs[0] != nil {
		w.fail("model-mismatch:touch-error", map[string]any{"got": errs[0].Error()})
		return
	}
	w.touchTotal += uint64(len(routes))
	for _, r := range routes {
		out := s.touch(r)
		w.r.Count("touch."+out, 1)
		if out == "tomb-fenced" {
			w.tombFenced++
		}
		w.shape.WriteString("T" + out[:1])
	}
	w.checkState("touch")
}

func (w *c33World) opExpire() {
	rng := w.rng
	now := time.Unix(w.clk, 0)
	ttl := time.Duration(1+rng.IntN(8)) * time.Second
	switch rng.IntN(12) {
	case 0: // sub-second clock and ttl: activity times are whole seconds by API, idle time is still exact
		now = now.Add(time.Duration(rng.IntN(1000)) * time.Millisecond)
		ttl += time.Duration(rng.IntN(1000)) * time.Millisecond
	case 1: // clock behind the activity times
		now = now.Add(-time.Duration(rng.IntN(6)) * time.Second)
	case 2:
		ttl = time.Hour
	}
	w.logf("Expire now=+%v ttl=%v", now.Sub(time.Unix(c33BaseUnix, 0)), ttl)
	beforeActive := w.modelActive()
	want := 0
	for _, s := range w.slots {
		want += s.expire(now, ttl)
	}
	w.expTotal += uint64(want)
	for di, d := range w.dirs {
		res := d.ExpireRoutesDetailed(now, ttl)
		if res.Expired != want {
			kind := "too-few"
			if res.Expired > want {
				kind = "too-many"
			}
			w.fail("expiry-count:"+kind, map[string]any{"dir": di, "expired": res.Expired, "want": want, "now_rel": now.Sub(time.Unix(c33BaseUnix, 0)).String(), "ttl": ttl.String()})
			return
		}
	}
	w.r.Count("expire.calls", 1)
	w.r.Count("expire.routes_removed", want)
	w.r.Count("expire.routes_kept", beforeActive-want)
	if want > 0 && want < beforeActive {
		w.properExpiry++
		w.shape.WriteString("E")
	} else if want > 0 {
		w.shape.WriteString("e")
	} else {
		w.shape.WriteString("n")
	}
	w.checkState("expire")
}

func (w *c33World) opLookup() {
	rng := w.rng
	ng := 1 + rng.IntN(4)
	groups := make([]presence.EndpointLookupGroup, ng)
	labels := make([]string, ng)
	for i := range groups {
		t, label := w.pickTarget()
		nu := 1 + rng.IntN(3)
		uids := make([]string, nu)
		for j := range uids {
			if rng.IntN(8) == 0 {
				uids[j] = "nobody"
			} else {
				uids[j] = c33UIDs[rng.IntN(len(c33UIDs))]
			}
		}
		groups[i] = presence.EndpointLookupGroup{Target: t, UIDs: uids}
		labels[i] = label
	}
	w.logf("Lookup groups=%d labels=%v", ng, labels)
	before := w.snapshots()
	var first []presence.EndpointLookupResult
	for di, d := range w.dirs {
		for rep := 0; rep < 2; rep++ {
			res := d.EndpointsByTargets(groups)
			if len(res) != len(groups) {
				w.fail("model-mismatch:bytargets-misaligned", map[string]any{"dir": di, "results": len(res), "groups": len(groups)})
				return
			}
			for gi, g := range groups {
				s := w.valid(g.Target)
				byUIDs, err := d.EndpointsByUIDs(g.Target, g.UIDs)
				if s == nil {
					if c33Class(res[gi].Err) != c33NotLeader || len(res[gi].Routes) != 0 {
						w.fail("stale-accepted:lookup-by-targets:"+labels[gi], map[string]any{"dir": di, "target": c33TgtStr(g.Target), "err": fmt.Sprint(res[gi].Err), "routes": len(res[gi].Routes)})
						return
					}
					if c33Class(err) != c33NotLeader || len(byUIDs) != 0 {
						w.fail("stale-accepted:lookup-by-uids:"+labels[gi], map[string]any{"dir": di, "target": c33TgtStr(g.Target), "err": fmt.Sprint(err), "routes": len(byUIDs)})
						return
					}
					w.r.Count("stale_rejected.lookup", 1)
					w.r.Count("stale_label."+labels[gi], 1)
					continue
				}
				if c33Class(res[gi].Err) == c33NotLeader && c33Class(err) == c33NotLeader && s.target != g.Target {
					w.r.Count("nonfence_variant_rejected."+labels[gi], 1)
					continue
				}
				if res[gi].Err != nil || err != nil {
					w.fail("model-mismatch:current-target-rejected:lookup", map[string]any{"dir": di, "target": c33TgtStr(g.Target), "label": labels[gi], "err_targets": fmt.Sprint(res[gi].Err), "err_uids": fmt.Sprint(err)})
					return
				}
				// expected = concatenation, in UID input order, of the single-UID lookups
				var want []presence.Route
				for _, uid := range g.UIDs {
					one, err := d.EndpointsByUID(g.Target, uid)
					if err != nil {
						w.fail("model-mismatch:current-target-rejected:lookup", map[string]any{"dir": di, "target": c33TgtStr(g.Target), "err": err.Error()})
						return
					}
					if m := s.routesOf(uid); len(m) != len(one) {
						w.fail("lookup-mismatch:by-uid-count", map[string]any{"dir": di, "uid": uid, "got": c33RoutesStr(one), "want": c33RoutesStr(m)})
						return
					}
					want = append(want, one...)
				}
				if !c33RoutesEqual(byUIDs, want) {
					w.fail("lookup-order-nondeterministic:by-uids-vs-by-uid", map[string]any{"dir": di, "uids": g.UIDs, "got": c33RoutesStr(byUIDs), "want": c33RoutesStr(want)})
					return
				}
				if !c33RoutesEqual(res[gi].Routes, want) {
					w.fail("lookup-order-nondeterministic:by-targets-vs-by-uid", map[string]any{"dir": di, "uids": g.UIDs, "got": c33RoutesStr(res[gi].Routes), "want": c33RoutesStr(want)})
					return
				}
				w.r.Count("lookup.groups_ok", 1)
			}
			if first == nil {
				first = res
			} else {
				for gi := range res {
					if !c33RoutesEqual(first[gi].Routes, res[gi].Routes) {
						w.fail("lookup-order-nondeterministic:by-targets", map[string]any{"dir": di, "repeat": rep, "group": gi, "first": c33RoutesStr(first[gi].Routes), "got": c33RoutesStr(res[gi].Routes)})
						return
					}
				}
			}
		}
	}
	after := w.snapshots()
	for di := range w.dirs {
		if !reflect.DeepEqual(before[di], after[di]) {
			w.fail("lookup-mutated-snapshot", map[string]any{"dir": di, "before": fmt.Sprintf("%+v", before[di]), "after": fmt.Sprintf("%+v", after[di])})
			return
		}
	}
	w.shape.WriteString("q")
	w.checkState("lookup")
}

func TestVerifC33(t *testing.T) {
	r := verifkit.Start(t, "C33", "main")
	defer r.Finish()
	r.SetRule("Each case is one PRNG history of 50 (thorough 90) operations — become/lose authority (fresh identity, revision-only, older term), register (fresh, conflicting, tombstone replays), retried registers of an outstanding conflict candidate (several pending tokens per identity, same/newer/older OwnerSeq), commit/abort of live, dead (committed/aborted/superseded/unregister-purged/previous-incarnation) and bogus tokens incl. drains of every outstanding token in PRNG order, unregister (at/below/above a candidate's OwnerSeq), touch batches (refresh, delayed, recreate, tombstone replays), expire on a logical clock, grouped lookups — each addressed with the current target (68%) or a stale variant (one fence field off, previous incarnation, uninstalled hash slot) — applied to two directories with different shard counts and to a reference model; full state compared after every operation. Non-trivial = history in which a stale-target operation was rejected while routes were active AND at least one of: a tombstone fenced a register/touch, an expiry removed a proper non-empty subset, a pending route was committed, a token purged by an unregister was committed/aborted. Distinct = op/outcome shape string of the history.")
	r.Assume("OwnerSeq >= 1 (0 is 'unset' in production); route activity times are non-zero; tombstone clause is scoped to one authority incarnation (BecomeAuthority with a new identity and LoseAuthority clear the slot by documented design); RouteRevision/AuthorityEpoch are not fences")
	nHist := r.N(20000, 400000)
	nOps := r.N(50, 90)
	for i := 0; i < nHist; i++ {
		if r.Skip(i) {
			continue
		}
		rng := r.Rand(33, uint64(i))
		w := &c33World{r: r, rng: rng, slots: map[uint16]*c33Slot{}, lastTgt: map[uint16]presence.RouteTarget{},
			prevTgts: map[uint16][]presence.RouteTarget{}, tomb: map[uint16]map[presence.RouteIdentity]uint64{},
			lastSeq: map[presence.RouteIdentity]uint64{}, clk: c33BaseUnix + 10,
			deadPrev: map[uint16][][2]presence.PendingRouteToken{}}
		if rng.IntN(2) == 0 {
			w.local = 9
		}
		shard1 := []int{1, 2, 7, 32, 64}[rng.IntN(5)]
		w.dirs[0] = presence.NewDirectory(presence.DirectoryOptions{LocalNodeID: w.local})
		w.dirs[1] = presence.NewDirectory(presence.DirectoryOptions{LocalNodeID: w.local, ShardCount: shard1})
		r.BeginCase(i, fmt.Sprintf("history local=%d shards1=%d", w.local, shard1))
		w.logf("NewDirectory local=%d shards=[default,%d]", w.local, shard1)
		r.Guard("history", map[string]any{"case": i}, func() {
			for op := 0; op < nOps && !w.failed; op++ {
				w.step(op)
				r.Eval(1)
			}
		})
		r.Max("max_history_len", len(w.log))
		if w.failed {
			r.Count("histories_failed", 1)
			if r.NumViolations() >= 10 {
				break
			}
			continue
		}
		r.Count("histories_ok", 1)
		if w.multiRoute > 0 {
			r.Count("histories_with_multi_route_uid", 1)
		}
		if w.purgedTokenTried > 0 {
			r.Count("histories_with_purged_token_commit_or_abort", 1)
		}
		if w.staleRejectedNonEmpty > 0 && (w.tombFenced > 0 || w.properExpiry > 0 || w.committed > 0 || w.purgedTokenTried > 0) {
			r.Nontrivial(w.shape.String())
		}
		if r.WantSample() && w.tombFenced > 0 && w.properExpiry > 0 && w.committed > 0 {
			r.Sample(map[string]any{"case": i, "shape": w.shape.String(), "history": w.log})
		}
	}
}
