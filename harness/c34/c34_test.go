//go:build verif

package conversation_test

// C34 — Conversation unread counts and visibility are exact.
//
// The real conversation.App is wired to
//   * a real pkg/db/meta database (one per run, one fresh UID per world) that
//     holds the membership rows, driven through the same WriteBatch calls the
//     slot FSM uses, so read/delete cursor monotonicity and tombstone handling
//     are the production ones;
//   * a fake channel world (explicit committed message lists, retention
//     boundary, uncommitted tail) that plays the Channel-leader hydrator the
//     way pkg/cluster/channels.readLocalConversationHead does: it reports
//     LastCommittedSeq, RetentionThroughSeq, the user's last committed send and
//     the newest non-sync-once message above retention — it does NOT apply the
//     per-user join/delete floors, that is the job of the code under test.
//
// Oracle (from the statement, by ENUMERATION of the message list):
//   unread(item) == #{ m in channel list : m.seq <= committed and
//                      m.seq > max(join point, deleted_to, retention, read_seq, own last send) }
//   where "after the join point" means m.seq >= JoinSeq (JoinSeq is documented
//   as the first visible sequence), and read_seq/deleted_to/JoinSeq are the
//   values held by the membership store at List time.
//   never negative  : Unread is unsigned; a wrapped subtraction shows up as a
//                     mismatch with the enumerated count.
//   ClearUnread ok  : the next List/Retry shows Unread == 0 for that channel.
//   SetUnread(N) ok : the next List/Retry shows Unread <= N.
//   LastMessage     : if present, seq > max(join point, deleted_to, retention),
//                     it is a committed message of the list, and it is newer
//                     than the commit point of the last successful
//                     DeleteConversation of this membership incarnation.
// Secondary (FLOW.md "Personal state mutations", properties.jsonl observe_at
// "advanced read_seq"): a read_seq advance requested by ClearUnread/SetUnread
// is never above the committed head and, for SetUnread, never below the
// visibility floor.
//
// Not asserted: which memberships are listed/omitted, Deletes/Unresolved
// contents, ordering, coverage metadata (other properties).

import (
	"context"
	"errors"
	"fmt"
	"math/rand/v2"
	"path/filepath"
	"runtime/debug"
	"sort"
	"strings"
	"sync"
	"sync/atomic"
	"testing"
	"time"

	"github.com/WuKongIM/WuKongIM/internal/usecase/conversation"
	metadb "github.com/WuKongIM/WuKongIM/pkg/db/meta"
	"github.com/WuKongIM/WuKongIM/pkg/verifkit"
)

type c34Msg struct {
	seq      uint64
	id       uint64
	sender   string
	syncOnce bool
}

type c34Chan struct {
	id        string
	typ       uint8
	msgs      []c34Msg // ascending, contiguous, every seq > retention
	leo       uint64   // last appended sequence
	committed uint64   // commit boundary (<= leo)
	retention uint64   // logical compaction floor (<= committed)
	fault     int      // 0 none, 1 retryable, 2 terminal delete
}

type c34Key struct {
	id  string
	typ int64
}

type c34Advance struct {
	key     c34Key
	readSeq uint64
}

type c34World struct {
	r     *verifkit.Run
	rng   *rand.Rand
	db    *metadb.DB
	slot  uint16
	uid   string
	chans map[c34Key]*c34Chan
	keys  []c34Key
	tick  int64
	nowNS int64
	app   *conversation.App
	// advances requested through the MembershipMutationStore port
	advances []c34Advance
	// srcVer tracks the source version used for leave/rejoin upserts
	srcVer map[c34Key]uint64
	// deletePoint = committed head at the last successful DeleteConversation of
	// the current membership incarnation
	deletePoint map[c34Key]uint64
	log         []string
	failed      bool
	readErr     bool
	failSig     string
	failWit     map[string]any
	msgID       uint64
}

func (w *c34World) logf(f string, a ...any) { w.log = append(w.log, fmt.Sprintf(f, a...)) }

func (w *c34World) fail(sig string, d map[string]any) {
	if w.failed {
		return
	}
	w.failed = true
	if d == nil {
		d = map[string]any{}
	}
	d["history"] = w.log
	d["uid"] = w.uid
	// worlds run on parallel workers; the violation is reported by the main
	// goroutine afterwards so that it is attributed to the right case.
	w.failSig, w.failWit = sig, d
}

func (w *c34World) now() time.Time {
	w.tick++
	w.nowNS = 1_000_000_000 + w.tick*1000
	return time.Unix(0, w.nowNS)
}

// ---- ports ---------------------------------------------------------------

func (w *c34World) ListUserChannelMembershipPage(ctx context.Context, uid string, after metadb.UserChannelMembershipCursor, limit int) ([]metadb.UserChannelMembership, metadb.UserChannelMembershipCursor, bool, error) {
	return w.db.ForHashSlot(w.slot).ListUserChannelMembershipPage(ctx, uid, after, limit)
}

func (w *c34World) GetUserChannelMembership(ctx context.Context, uid, channelID string, channelType int64) (metadb.UserChannelMembership, bool, error) {
	return w.db.MetaDB().HashSlot(w.slot).GetUserChannelMembership(ctx, uid, channelID, channelType)
}

func (w *c34World) commit(stage func(wb *metadb.WriteBatch) error) error {
	wb := w.db.NewWriteBatch()
	defer wb.Close()
	if err := stage(wb); err != nil {
		return err
	}
	return wb.Commit()
}

// exists keeps a mutation of a missing row out of the shared commit
// coordinator: a failing Build there fails every request coalesced into the
// same physical batch, i.e. unrelated worlds running on other workers. The
// caller-visible outcome (ErrNotFound) is the one the batch would produce.
func (w *c34World) exists(uid, channelID string, channelType int64) error {
	_, ok, err := w.db.MetaDB().HashSlot(w.slot).GetUserChannelMembership(context.Background(), uid, channelID, channelType)
	if err != nil {
		return err
	}
	if !ok {
		return metadb.ErrNotFound
	}
	return nil
}

func (w *c34World) AdvanceUserChannelMembershipReadSeq(_ context.Context, uid, channelID string, channelType int64, readSeq uint64, updatedAt int64) error {
	w.advances = append(w.advances, c34Advance{key: c34Key{channelID, channelType}, readSeq: readSeq})
	if err := w.exists(uid, channelID, channelType); err != nil {
		return err
	}
	return w.commit(func(wb *metadb.WriteBatch) error {
		return wb.AdvanceUserChannelMembershipReadSeq(w.slot, uid, metadb.ChannelKey{ChannelID: channelID, ChannelType: channelType}, readSeq, updatedAt)
	})
}

func (w *c34World) HideUserChannelMembership(_ context.Context, uid, channelID string, channelType int64, deletedToSeq uint64, updatedAt int64) error {
	if err := w.exists(uid, channelID, channelType); err != nil {
		return err
	}
	return w.commit(func(wb *metadb.WriteBatch) error {
		return wb.HideUserChannelMembership(w.slot, uid, metadb.ChannelKey{ChannelID: channelID, ChannelType: channelType}, deletedToSeq, updatedAt)
	})
}

func (w *c34World) ActivateUserChannelMembership(_ context.Context, uid, channelID string, channelType int64, activatedAt, updatedAt int64) error {
	if err := w.exists(uid, channelID, channelType); err != nil {
		return err
	}
	return w.commit(func(wb *metadb.WriteBatch) error {
		return wb.ActivateUserChannelMembership(w.slot, uid, metadb.ChannelKey{ChannelID: channelID, ChannelType: channelType}, activatedAt, updatedAt)
	})
}

// HydrateConversationHeads is the fake Channel leader.
func (w *c34World) HydrateConversationHeads(_ context.Context, uid string, memberships []metadb.UserChannelMembership) ([]conversation.HydrationResult, error) {
	out := make([]conversation.HydrationResult, len(memberships))
	for i, row := range memberships {
		key := conversation.ConversationKey{ChannelID: row.ChannelID, ChannelType: row.ChannelType}
		out[i].Key = key
		ch := w.chans[c34Key{row.ChannelID, row.ChannelType}]
		if ch == nil || ch.fault == 2 {
			out[i].Outcome = conversation.HydrationDelete
			continue
		}
		if ch.fault == 1 {
			out[i].Outcome = conversation.HydrationRetryable
			continue
		}
		out[i].LastCommittedSeq = ch.committed
		out[i].RetentionThroughSeq = ch.retention
		out[i].Outcome = conversation.HydrationNoVisibleMessage
		for j := len(ch.msgs) - 1; j >= 0; j-- {
			m := ch.msgs[j]
			if m.seq > ch.committed {
				continue
			}
			if m.sender == uid && out[i].CurrentUserLastSendSeq == 0 {
				out[i].CurrentUserLastSendSeq = m.seq
			}
			if !m.syncOnce && out[i].LastMessage == nil && m.seq > ch.retention {
				out[i].LastMessage = &conversation.LastMessage{MessageID: m.id, MessageSeq: m.seq, FromUID: m.sender,
					ClientMsgNo: fmt.Sprintf("c%d", m.id), ServerTimestampMS: int64(m.id), Payload: []byte(fmt.Sprintf("p%d", m.id))}
				out[i].Outcome = conversation.HydrationOK
			}
		}
	}
	return out, nil
}

// ---- oracle --------------------------------------------------------------

type c34Expect struct {
	unread     uint64
	visFloor   uint64
	terms      [5]uint64 // join point, deleted_to, retention, read_seq, own last send
	committed  uint64
	ownLast    uint64
	totalAbove uint64
}

func c34Max(vs ...uint64) uint64 {
	var m uint64
	for _, v := range vs {
		if v > m {
			m = v
		}
	}
	return m
}

// expect computes the statement's quantities by walking the message list.
func (w *c34World) expect(row metadb.UserChannelMembership, ch *c34Chan) c34Expect {
	var e c34Expect
	e.committed = ch.committed
	for _, m := range ch.msgs {
		if m.seq <= ch.committed && m.sender == w.uid && m.seq > e.ownLast {
			e.ownLast = m.seq
		}
	}
	for _, m := range ch.msgs {
		if m.seq > ch.committed {
			continue // not committed
		}
		if m.seq < row.JoinSeq { // before the user joined
			continue
		}
		if m.seq <= row.DeletedToSeq || m.seq <= ch.retention { // deleted by the user / retained away
			continue
		}
		e.totalAbove++
		if m.seq <= row.ReadSeq || m.seq <= e.ownLast { // already read / implied read by own send
			continue
		}
		e.unread++
	}
	jp := uint64(0)
	if row.JoinSeq > 0 {
		jp = row.JoinSeq - 1
	}
	e.terms = [5]uint64{jp, row.DeletedToSeq, ch.retention, row.ReadSeq, e.ownLast}
	e.visFloor = c34Max(jp, row.DeletedToSeq, ch.retention)
	return e
}

func c34Ranks(vals []uint64) string {
	sorted := append([]uint64(nil), vals...)
	sort.Slice(sorted, func(i, j int) bool { return sorted[i] < sorted[j] })
	rank := map[uint64]int{}
	for _, v := range sorted {
		if _, ok := rank[v]; !ok {
			rank[v] = len(rank)
		}
	}
	var sb strings.Builder
	for _, v := range vals {
		fmt.Fprintf(&sb, "%d", rank[v])
	}
	return sb.String()
}

type c34After struct {
	kind string // "", "clear", "set", "delete"
	key  c34Key
	n    int
}

func (w *c34World) row(key c34Key) (metadb.UserChannelMembership, bool) {
	row, ok, err := w.db.MetaDB().HashSlot(w.slot).GetUserChannelMembership(context.Background(), w.uid, key.id, key.typ)
	if err != nil {
		// a harness-side read failure decides nothing
		w.r.Inconclusive("meta get failed: " + err.Error())
		w.readErr = true
		return row, false
	}
	return row, ok
}

func (w *c34World) checkItem(src string, it conversation.Conversation, after c34After) {
	if w.failed {
		return
	}
	key := c34Key{it.ChannelID, it.ChannelType}
	ch := w.chans[key]
	row, ok := w.row(key)
	if w.readErr {
		return
	}
	if ch == nil || !ok {
		w.fail("item-for-unknown-membership:"+src, map[string]any{"channel": it.ChannelID})
		return
	}
	w.r.Eval(1)
	e := w.expect(row, ch)
	wit := func() map[string]any {
		return map[string]any{"channel": it.ChannelID, "got_unread": it.Unread, "want_unread": e.unread,
			"join_seq": row.JoinSeq, "deleted_to": row.DeletedToSeq, "retention": ch.retention, "read_seq": row.ReadSeq,
			"own_last_send": e.ownLast, "committed": ch.committed, "leo": ch.leo, "activated_at": row.ActivatedAt,
			"first_listed_seq": c34First(ch), "src": src}
	}
	if it.Unread != e.unread {
		kind := "too-high"
		if it.Unread < e.unread {
			kind = "too-low"
		}
		if it.Unread > ch.leo+1 {
			kind = "wrapped-negative"
		}
		// which term decided the effective read point
		dom := ""
		names := [5]string{"join", "deleted", "retention", "read", "own-send"}
		mx := c34Max(e.terms[:]...)
		for i, v := range e.terms {
			if v == mx {
				dom += names[i] + "+"
			}
		}
		w.fail("unread-mismatch:"+kind+":dominant="+strings.TrimSuffix(dom, "+"), wit())
		return
	}
	if it.LastMessage != nil {
		lm := it.LastMessage
		if lm.MessageSeq <= e.visFloor {
			which := "retention"
			if lm.MessageSeq < row.JoinSeq {
				which = "join"
			} else if lm.MessageSeq <= row.DeletedToSeq {
				which = "deleted"
			}
			d := wit()
			d["last_message_seq"] = lm.MessageSeq
			w.fail("last-message-below-floor:"+which, d)
			return
		}
		if dp, ok := w.deletePoint[key]; ok && lm.MessageSeq <= dp {
			d := wit()
			d["last_message_seq"], d["delete_point"] = lm.MessageSeq, dp
			w.fail("last-message-before-delete", d)
			return
		}
		found := false
		for _, m := range ch.msgs {
			if m.seq == lm.MessageSeq {
				found = m.seq <= ch.committed && m.id == lm.MessageID && m.sender == lm.FromUID
			}
		}
		if !found {
			d := wit()
			d["last_message_seq"] = lm.MessageSeq
			w.fail("last-message-not-a-committed-message", d)
			return
		}
		w.r.Count("last_message.shown", 1)
	} else {
		w.r.Count("last_message.absent", 1)
	}
	if after.key == key {
		switch after.kind {
		case "clear":
			if it.Unread != 0 {
				w.fail("unread-nonzero-after-clear", wit())
				return
			}
			w.r.Count("seq_assert.clear_then_zero", 1)
		case "set":
			if it.Unread > uint64(after.n) {
				d := wit()
				d["n"] = after.n
				w.fail("unread-above-n-after-set", d)
				return
			}
			w.r.Count("seq_assert.set_then_at_most_n", 1)
		case "delete":
			if it.Unread != 0 || it.LastMessage != nil {
				w.fail("visible-after-delete", wit())
				return
			}
			w.r.Count("seq_assert.delete_then_hidden", 1)
		}
	}
	// non-triviality: some message exists above the visibility floor or the
	// floor terms are not all equal
	distinctTerms := map[uint64]bool{}
	for _, v := range e.terms {
		distinctTerms[v] = true
	}
	if e.totalAbove > 0 || len(distinctTerms) > 1 {
		lm := "none"
		if it.LastMessage != nil {
			lm = "shown"
		}
		u := "u0"
		if e.unread > 0 {
			u = "u+"
		}
		w.r.Nontrivial(c34Ranks(append(e.terms[:], ch.committed, ch.leo)) + "|" + u + "|" + lm + "|" + after.kind)
	}
	if e.unread > 0 {
		w.r.Count("items.unread_positive", 1)
	} else {
		w.r.Count("items.unread_zero", 1)
	}
}

func c34First(ch *c34Chan) uint64 {
	if len(ch.msgs) == 0 {
		return 0
	}
	return ch.msgs[0].seq
}

// listAll pages through the whole directory and checks every item.
func (w *c34World) listAll(after c34After) {
	if w.failed {
		return
	}
	limit := []int{0, 1, 2, 3, 200}[w.rng.IntN(5)]
	var cursor conversation.Cursor
	seen := map[c34Key]bool{}
	var unresolved []conversation.ConversationKey
	for page := 0; page < 16; page++ {
		res, err := w.app.List(context.Background(), conversation.ListRequest{UID: w.uid, Cursor: cursor, Limit: limit})
		if err != nil {
			w.r.Count("list.error", 1)
			w.logf("List error: %v", err)
			return
		}
		w.r.Count("list.pages", 1)
		for _, it := range res.Items {
			k := c34Key{it.ChannelID, it.ChannelType}
			if seen[k] {
				continue
			}
			seen[k] = true
			w.checkItem("list", it, after)
		}
		unresolved = append(unresolved, res.Unresolved...)
		w.r.Count("list.deletes", len(res.Deletes))
		w.r.Count("list.unresolved", len(res.Unresolved))
		if res.Done {
			break
		}
		cursor = res.NextCursor
	}
	if after.kind != "" && !seen[after.key] {
		w.r.Count("seq_assert.channel_not_listed_after_"+after.kind, 1)
	}
	// Retry path: unresolved keys (after the leader came back) or a random key
	var keys []conversation.ConversationKey
	if len(unresolved) > 0 {
		for _, k := range unresolved {
			if ch := w.chans[c34Key{k.ChannelID, k.ChannelType}]; ch != nil && ch.fault == 1 {
				ch.fault = 0
			}
		}
		keys = unresolved
		w.logf("leader back; Retry %v", keys)
	} else if w.rng.IntN(3) == 0 {
		k := w.keys[w.rng.IntN(len(w.keys))]
		keys = []conversation.ConversationKey{{ChannelID: k.id, ChannelType: k.typ}}
	}
	if len(keys) > 0 && !w.failed {
		res, err := w.app.Retry(context.Background(), conversation.RetryRequest{UID: w.uid, Keys: keys})
		if err != nil {
			w.r.Count("retry.error", 1)
			return
		}
		w.r.Count("retry.calls", 1)
		for _, it := range res.Items {
			w.checkItem("retry", it, after)
		}
	}
}

// ---- workload ------------------------------------------------------------

func (w *c34World) send(ch *c34Chan, sender string, syncOnce bool) {
	ch.leo++
	w.msgID++
	ch.msgs = append(ch.msgs, c34Msg{seq: ch.leo, id: w.msgID, sender: sender, syncOnce: syncOnce})
}

func (w *c34World) genChannel(id string, typ uint8) *c34Chan {
	rng := w.rng
	ch := &c34Chan{id: id, typ: typ}
	n := rng.IntN(12)
	if rng.IntN(6) == 0 {
		n = 0
	}
	for i := 0; i < n; i++ {
		w.send(ch, w.sender(), rng.IntN(10) == 0)
	}
	ch.committed = ch.leo
	if ch.leo > 0 && rng.IntN(4) == 0 {
		ch.committed = ch.leo - uint64(rng.IntN(int(min(ch.leo, 3))+1))
	}
	if ch.committed > 0 && rng.IntN(3) == 0 {
		w.retain(ch, uint64(1+rng.IntN(int(ch.committed))))
	}
	return ch
}

func (w *c34World) sender() string {
	switch w.rng.IntN(3) {
	case 0:
		return w.uid
	case 1:
		return "peer-a"
	}
	return "peer-b"
}

func (w *c34World) retain(ch *c34Chan, through uint64) {
	if through <= ch.retention || through > ch.committed {
		return
	}
	ch.retention = through
	kept := ch.msgs[:0:0]
	for _, m := range ch.msgs {
		if m.seq > through {
			kept = append(kept, m)
		}
	}
	ch.msgs = kept
}

func (w *c34World) seqNear(ch *c34Chan) uint64 {
	hi := int(ch.leo) + 3
	v := w.rng.IntN(hi)
	switch w.rng.IntN(6) {
	case 0:
		return 0
	case 1:
		return ch.committed
	case 2:
		return ch.committed + 1
	}
	return uint64(v)
}

func (w *c34World) classify(err error) string {
	switch {
	case err == nil:
		return "ok"
	case errors.Is(err, metadb.ErrNotFound):
		return "not-found"
	case errors.Is(err, conversation.ErrRouteNotReady):
		return "route-not-ready"
	}
	return "other"
}

func (w *c34World) step() c34After {
	rng := w.rng
	key := w.keys[rng.IntN(len(w.keys))]
	ch := w.chans[key]
	ctx := context.Background()
	switch x := rng.IntN(100); {
	case x < 30: // send
		n := 1 + rng.IntN(3)
		for i := 0; i < n; i++ {
			s := w.sender()
			w.send(ch, s, s != w.uid && rng.IntN(8) == 0)
		}
		if rng.IntN(6) != 0 {
			ch.committed = ch.leo
		}
		w.logf("send %s x%d -> leo=%d committed=%d (last sender %s)", key.id, n, ch.leo, ch.committed, ch.msgs[len(ch.msgs)-1].sender)
		w.r.Count("op.send", 1)
	case x < 34: // commit catches up
		ch.committed = ch.leo
		w.logf("commit %s -> %d", key.id, ch.committed)
		w.r.Count("op.commit_advance", 1)
	case x < 48: // ClearUnread
		w.advances = w.advances[:0]
		err := w.app.ClearUnread(ctx, conversation.ClearUnreadCommand{UID: w.uid, ChannelID: key.id, ChannelType: uint8(key.typ)})
		w.logf("ClearUnread %s -> %v (committed=%d)", key.id, err, ch.committed)
		w.r.Count("op.clear."+w.classify(err), 1)
		if err == nil {
			w.checkAdvances("clear", key, ch, 0, false)
			return c34After{kind: "clear", key: key}
		}
	case x < 64: // SetUnread
		n := rng.IntN(5)
		switch rng.IntN(6) {
		case 0:
			n = int(ch.committed)
		case 1:
			n = int(ch.committed) + 1 + rng.IntN(3)
		}
		row, live := w.row(key)
		w.advances = w.advances[:0]
		err := w.app.SetUnread(ctx, conversation.SetUnreadCommand{UID: w.uid, ChannelID: key.id, ChannelType: uint8(key.typ), Unread: n})
		w.logf("SetUnread %s n=%d -> %v (committed=%d)", key.id, n, err, ch.committed)
		w.r.Count("op.set."+w.classify(err), 1)
		if err == nil {
			floor := uint64(0)
			if live {
				floor = w.expect(row, ch).visFloor
			}
			w.checkAdvances("set", key, ch, floor, live)
			return c34After{kind: "set", key: key, n: n}
		}
	case x < 72: // DeleteConversation
		err := w.app.DeleteConversation(ctx, conversation.DeleteConversationCommand{UID: w.uid, ChannelID: key.id, ChannelType: uint8(key.typ)})
		w.logf("Delete %s -> %v (committed=%d)", key.id, err, ch.committed)
		w.r.Count("op.delete."+w.classify(err), 1)
		if err == nil {
			if row, ok := w.row(key); ok && !row.Tombstone {
				w.deletePoint[key] = ch.committed
				return c34After{kind: "delete", key: key}
			}
		}
	case x < 80: // Activate
		err := w.app.ActivateConversation(ctx, conversation.ActivateConversationCommand{UID: w.uid, ChannelID: key.id, ChannelType: uint8(key.typ)})
		w.logf("Activate %s -> %v", key.id, err)
		w.r.Count("op.activate."+w.classify(err), 1)
	case x < 88: // retention advances
		if ch.committed > ch.retention {
			to := ch.retention + 1 + uint64(rng.IntN(int(ch.committed-ch.retention)))
			w.retain(ch, to)
			w.logf("retention %s -> %d", key.id, to)
			w.r.Count("op.retention", 1)
		}
	case x < 94: // leave / rejoin
		row, ok := w.row(key)
		w.srcVer[key]++
		next := metadb.UserChannelMembership{UID: w.uid, ChannelID: key.id, ChannelType: key.typ, SourceVersion: w.srcVer[key], UpdatedAt: w.now().UnixNano()}
		if ok && !row.Tombstone {
			next.Tombstone, next.TombstoneAt = true, next.UpdatedAt
			w.logf("leave %s", key.id)
			w.r.Count("op.leave", 1)
		} else {
			next.JoinSeq = ch.leo + uint64(rng.IntN(2))
			if rng.IntN(4) == 0 {
				next.JoinSeq = w.seqNear(ch)
			}
			if rng.IntN(3) == 0 {
				next.ActivatedAt = w.now().UnixNano()
			}
			delete(w.deletePoint, key)
			w.logf("join %s join_seq=%d activated=%v", key.id, next.JoinSeq, next.ActivatedAt != 0)
			w.r.Count("op.join", 1)
		}
		if err := w.commit(func(wb *metadb.WriteBatch) error { return wb.UpsertUserChannelMembership(w.slot, next) }); err != nil {
			w.r.Inconclusive("membership upsert failed: " + err.Error())
		}
	default: // leader unavailable / channel disbanded / back
		ch.fault = []int{0, 1, 1, 2}[rng.IntN(4)]
		w.logf("fault %s = %d", key.id, ch.fault)
		w.r.Count("op.fault", 1)
	}
	return c34After{}
}

// checkAdvances decides the secondary read_seq-advance assertions.
func (w *c34World) checkAdvances(kind string, key c34Key, ch *c34Chan, visFloor uint64, checkFloor bool) {
	for _, a := range w.advances {
		if a.key != key {
			w.fail("advance-wrong-channel:"+kind, map[string]any{"want": key.id, "got": a.key.id})
			return
		}
		w.r.Count("advance."+kind, 1)
		// nothing beyond the committed head can have been read; an arbitrary
		// row whose visibility floor already lies beyond the head may be
		// advanced to that floor (FLOW.md: max(visibility_floor, ...)).
		if a.readSeq > ch.committed && !(checkFloor && a.readSeq <= visFloor) {
			w.fail("read-seq-advanced-beyond-committed:"+kind, map[string]any{"channel": key.id, "read_seq": a.readSeq, "committed": ch.committed})
			return
		}
		if checkFloor && a.readSeq < visFloor {
			w.fail("setunread-advance-below-floor", map[string]any{"channel": key.id, "read_seq": a.readSeq, "visibility_floor": visFloor, "committed": ch.committed})
			return
		}
	}
}

func TestVerifC34(t *testing.T) {
	r := verifkit.Start(t, "C34", "main")
	defer r.Finish()
	r.SetRule("Each case is one world: a fresh UID with 1-3 channels (random committed prehistory, retention boundary, uncommitted tail, own/peer/sync-once senders) and arbitrary membership rows (join/read/delete cursors around the head, activated or not, tombstones, missing rows) in a real pkg/db/meta database, followed by 14 (thorough 30) random operations — send, commit advance, ClearUnread, SetUnread(n), DeleteConversation, ActivateConversation, retention advance, leave/rejoin, leader fault — with a paged List (and Retry) after every operation; every returned item is one evaluation checked against an enumeration of the message list. Non-trivial = item whose channel has a message above the visibility floor or whose five floor terms are not all equal. Distinct = dense-rank pattern of (join point, deleted_to, retention, read_seq, own send, committed, leo) + unread>0 + last-message shown + preceding command.")
	r.Assume("channel sequences are contiguous (1..LEO, retention removes a prefix); retention <= committed <= LEO; the hydrator fake mirrors readLocalConversationHead (newest non-sync-once committed message above retention, no per-user floors)")
	r.Assume("worlds are independent (distinct UIDs) and run on 12 parallel workers against one meta database only to amortise synchronous commits; each world is single-threaded and a pure function of (seed, case index)")

	db, err := metadb.Open(filepath.Join(t.TempDir(), "meta"))
	if err != nil {
		r.Inconclusive("meta open: " + err.Error())
		return
	}
	defer db.Close()

	nWorlds := r.N(8000, 60000)
	nOps := r.N(14, 30)
	failures := make([]*c34World, nWorlds)
	var nFailed atomic.Int64
	idx := make(chan int, 64)
	var wg sync.WaitGroup
	for wk := 0; wk < 12; wk++ {
		wg.Add(1)
		go func() {
			defer wg.Done()
			for i := range idx {
				if nFailed.Load() >= 10 {
					continue
				}
				w := c34RunWorld(r, db, i, nOps)
				if w.failed {
					failures[i] = w
					nFailed.Add(1)
				}
			}
		}()
	}
	for i := 0; i < nWorlds; i++ {
		if r.Skip(i) {
			continue
		}
		idx <- i
	}
	close(idx)
	wg.Wait()
	for i, w := range failures {
		if w == nil {
			continue
		}
		r.BeginCase(i, "world "+w.uid)
		r.Violation(w.failSig, w.failWit)
	}
}

func c34RunWorld(r *verifkit.Run, db *metadb.DB, i, nOps int) (w *c34World) {
	rng := r.Rand(34, uint64(i))
	w = &c34World{r: r, rng: rng, db: db, slot: uint16(i % 5), uid: fmt.Sprintf("u%d", i), chans: map[c34Key]*c34Chan{},
		srcVer: map[c34Key]uint64{}, deletePoint: map[c34Key]uint64{}}
	w.app = conversation.New(conversation.Options{Directory: w, Hydrator: w, MembershipMutations: w, Now: w.now})
	defer func() {
		if p := recover(); p != nil {
			w.fail("panic:world", map[string]any{"panic": fmt.Sprint(p), "stack": string(debug.Stack())})
		}
		r.Max("max_history_len", len(w.log))
		if w.failed {
			r.Count("worlds_failed", 1)
		} else {
			r.Count("worlds_ok", 1)
			if r.WantSample() && i%997 == 3 {
				r.Sample(map[string]any{"case": i, "history": w.log})
			}
		}
	}()
	nch := 1 + rng.IntN(3)
	ids := []c34Key{{"g1", 2}, {"g2", 2}, {"p1@" + w.uid, 1}}
	for c := 0; c < nch; c++ {
		key := ids[c]
		ch := w.genChannel(key.id, uint8(key.typ))
		w.chans[key] = ch
		w.keys = append(w.keys, key)
		if rng.IntN(10) == 0 {
			w.logf("channel %s leo=%d committed=%d retention=%d: no membership row", key.id, ch.leo, ch.committed, ch.retention)
			continue
		}
		w.srcVer[key] = uint64(rng.IntN(2))
		row := metadb.UserChannelMembership{UID: w.uid, ChannelID: key.id, ChannelType: key.typ,
			JoinSeq: w.seqNear(ch), ReadSeq: w.seqNear(ch), DeletedToSeq: 0, SourceVersion: w.srcVer[key], UpdatedAt: 1}
		if rng.IntN(2) == 0 {
			row.DeletedToSeq = w.seqNear(ch)
		}
		if rng.IntN(3) == 0 {
			row.ReadSeq = 0
		}
		if rng.IntN(3) != 0 {
			row.ActivatedAt = int64(1 + rng.IntN(1000))
		}
		if rng.IntN(12) == 0 {
			row.Tombstone, row.TombstoneAt = true, 1
		}
		w.logf("channel %s leo=%d committed=%d retention=%d first=%d; row join=%d read=%d del=%d act=%d tomb=%v", key.id, ch.leo, ch.committed, ch.retention, c34First(ch),
			row.JoinSeq, row.ReadSeq, row.DeletedToSeq, row.ActivatedAt, row.Tombstone)
		if err := w.commit(func(wb *metadb.WriteBatch) error { return wb.UpsertUserChannelMembership(w.slot, row) }); err != nil {
			r.Inconclusive("initial upsert failed: " + err.Error())
			return w
		}
	}
	w.listAll(c34After{})
	for op := 0; op < nOps && !w.failed; op++ {
		after := w.step()
		w.listAll(after)
	}
	return w
}
