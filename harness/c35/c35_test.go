//go:build verif

package channelid_test

import (
	"fmt"
	"hash/crc32"
	"math/rand/v2"
	"strings"
	"testing"

	"github.com/WuKongIM/WuKongIM/pkg/protocol/channelid"
	"github.com/WuKongIM/WuKongIM/pkg/verifkit"
)

// validUID is the precondition under which decode must succeed: a non-empty
// uid without the separator.
func c35ValidUID(s string) bool { return s != "" && !strings.Contains(s, "@") }

var c35Alphabet = []string{"a", "b", "u", "1", "0", "_", "-", ".", "A", "Z", "@", "____cmd", "cmd", "__", " ", "é", "用", "户", "\x00", "\xff", "\x80", "😀", "uid", "user", ","}

func c35GenUID(rng *rand.Rand, hostile bool) string {
	n := rng.IntN(6)
	if rng.IntN(8) == 0 {
		n = rng.IntN(40)
	}
	var sb strings.Builder
	for i := 0; i < n; i++ {
		tok := c35Alphabet[rng.IntN(len(c35Alphabet))]
		if !hostile && (tok == "@") {
			tok = "x"
		}
		sb.WriteString(tok)
	}
	return sb.String()
}

// c35Collisions finds pairs of distinct short strings with equal CRC32 by
// birthday search (deterministic in the seed).
func c35Collisions(rng *rand.Rand, want, budget int) [][2]string {
	seen := make(map[uint32]string, budget)
	var out [][2]string
	const letters = "abcdefghijklmnopqrstuvwxyz0123456789"
	buf := make([]byte, 0, 12)
	for i := 0; i < budget && len(out) < want; i++ {
		buf = buf[:0]
		n := 5 + rng.IntN(4)
		for j := 0; j < n; j++ {
			buf = append(buf, letters[rng.IntN(len(letters))])
		}
		s := string(buf)
		h := crc32.ChecksumIEEE(buf)
		if o, ok := seen[h]; ok && o != s {
			out = append(out, [2]string{o, s})
			continue
		}
		seen[h] = s
	}
	return out
}

type c35Pair struct {
	A, B string
	Kind string
}

func TestVerifC35(t *testing.T) {
	r := verifkit.Start(t, "C35", "main")
	defer r.Finish()
	r.SetRule("UID pairs from a hostile alphabet (separator '@', command suffix, empty, non-UTF-8, unicode), equal UIDs, and CRC32-colliding pairs found by birthday search; each pair checks symmetry, normalize idempotence, sender containment, decode inverse; each string checks command/agent channel laws. Non-trivial = pair whose two UIDs differ and are both valid (no '@', non-empty) or a CRC collision/equal pair; distinct by (kind, a, b).")

	rng := r.Rand(35)
	colls := c35Collisions(rng, r.N(40, 400), r.N(1_200_000, 6_000_000))
	r.Count("crc_collision_pairs", len(colls))
	nPairs := r.N(300_000, 3_000_000)

	checkPair := func(i int, p c35Pair) {
		a, b := p.A, p.B
		r.Eval(1)
		var ab, ba string
		if r.Guard("EncodePersonChannel", p, func() {
			ab = channelid.EncodePersonChannel(a, b)
			ba = channelid.EncodePersonChannel(b, a)
		}) {
			return
		}
		if ab != ba {
			r.Violation("person-asymmetric:"+p.Kind, map[string]any{"a": a, "b": b, "ab": ab, "ba": ba})
			return
		}
		bothValid := c35ValidUID(a) && c35ValidUID(b)
		var l, rr string
		var derr error
		if r.Guard("DecodePersonChannel", p, func() { l, rr, derr = channelid.DecodePersonChannel(ab) }) {
			return
		}
		if bothValid {
			if derr != nil {
				r.Violation("person-decode-rejects-valid:"+p.Kind, map[string]any{"a": a, "b": b, "id": ab, "err": fmt.Sprint(derr)})
			} else if !((l == a && rr == b) || (l == b && rr == a)) {
				r.Violation("person-decode-wrong:"+p.Kind, map[string]any{"a": a, "b": b, "id": ab, "l": l, "r": rr})
			}
			r.Count("decode_ok", 1)
		} else if derr == nil {
			// decode of an id built from invalid uids may only succeed if it
			// reproduces the two inputs exactly (never a mis-split).
			if !((l == a && rr == b) || (l == b && rr == a)) {
				r.Violation("person-misdecode-invalid:"+p.Kind, map[string]any{"a": a, "b": b, "id": ab, "l": l, "r": rr})
			}
			r.Count("decode_invalid_but_exact", 1)
		} else {
			r.Count("decode_rejected_invalid", 1)
		}
		if bothValid {
			// canonical id is a fixed point of normalisation for both senders
			for _, s := range []string{a, b} {
				var n string
				var err error
				if r.Guard("NormalizePersonChannel", p, func() { n, err = channelid.NormalizePersonChannel(s, ab) }) {
					return
				}
				if err != nil || n != ab {
					r.Violation("person-normalize-not-fixed:"+p.Kind, map[string]any{"a": a, "b": b, "sender": s, "id": ab, "got": n, "err": fmt.Sprint(err)})
				}
			}
			// bare peer uid normalises to the canonical id
			n, err := channelid.NormalizePersonChannel(a, b)
			if err != nil || n != ab {
				r.Violation("person-normalize-peer:"+p.Kind, map[string]any{"a": a, "b": b, "id": ab, "got": n, "err": fmt.Sprint(err)})
			}
			// also the non-canonical orientation normalises to canonical
			for _, id := range []string{a + "@" + b, b + "@" + a} {
				n, err := channelid.NormalizePersonChannel(a, id)
				if err != nil || n != ab {
					r.Violation("person-normalize-orientation:"+p.Kind, map[string]any{"a": a, "b": b, "in": id, "want": ab, "got": n, "err": fmt.Sprint(err)})
				}
			}
			// a third party cannot address it
			for k := 0; k < 2; k++ {
				third := c35GenUID(rng, false)
				if third == a || third == b || third == "" {
					continue
				}
				n, err := channelid.NormalizePersonChannel(third, ab)
				if err == nil {
					r.Violation("person-foreign-sender-accepted:"+p.Kind, map[string]any{"a": a, "b": b, "sender": third, "id": ab, "got": n})
				}
				r.Count("foreign_sender_rejected", 1)
			}
			if a != b || p.Kind != "random" {
				r.Nontrivial(p.Kind + "|" + a + "|" + b)
			}
		} else {
			// invalid uids: normalisation of a sender-containing id must either fail or return an id that still contains the sender
			n, err := channelid.NormalizePersonChannel(a, ab)
			if err == nil && a != "" {
				if !strings.Contains(n, a) {
					r.Violation("person-normalize-drops-sender:"+p.Kind, map[string]any{"a": a, "b": b, "id": ab, "got": n})
				}
			}
		}
		if r.WantSample() && i%1000 == 7 {
			r.Sample(map[string]any{"a": a, "b": b, "kind": p.Kind, "id": ab})
		}
	}

	idx := 0
	for _, c := range colls {
		r.BeginCase(idx, "crc-collision")
		checkPair(idx, c35Pair{c[0], c[1], "crc-collision"})
		r.Count("collision_pairs_checked", 1)
		idx++
	}
	if len(colls) > 0 {
		r.Sample(map[string]any{"kind": "crc-collision", "a": colls[0][0], "b": colls[0][1], "crc": crc32.ChecksumIEEE([]byte(colls[0][0])), "id": channelid.EncodePersonChannel(colls[0][0], colls[0][1])})
	}
	r.BeginCase(idx, "random pairs")
	for i := 0; i < nPairs; i++ {
		hostile := rng.IntN(3) == 0
		a := c35GenUID(rng, hostile)
		b := c35GenUID(rng, hostile)
		kind := "random"
		switch rng.IntN(10) {
		case 0:
			b = a
			kind = "equal"
		case 1:
			if len(a) > 0 {
				b = a[:len(a)-1]
				kind = "prefix"
			}
		}
		if hostile {
			kind += "-hostile"
		}
		checkPair(idx+i, c35Pair{a, b, kind})
	}

	// command / agent channel laws on single strings
	nStr := r.N(200_000, 2_000_000)
	for i := 0; i < nStr; i++ {
		x := c35GenUID(rng, true)
		if rng.IntN(4) == 0 {
			x += channelid.CommandChannelSuffix
		}
		if rng.IntN(16) == 0 {
			x += channelid.CommandChannelSuffix
		}
		r.Eval(1)
		r.Guard("command", x, func() {
			c := channelid.ToCommandChannel(x)
			if !channelid.IsCommandChannel(c) {
				r.Violation("cmd-to-not-command", x)
			}
			if channelid.ToCommandChannel(c) != c {
				r.Violation("cmd-not-idempotent", x)
			}
			if channelid.IsCommandChannel(x) {
				if c != x {
					r.Violation("cmd-suffix-applied-twice", x)
				}
				base, ok := channelid.FromCommandChannel(x)
				if !ok || base+channelid.CommandChannelSuffix != x {
					r.Violation("cmd-from-wrong", map[string]any{"x": x, "base": base, "ok": ok})
				}
				r.Count("cmd_already_suffixed", 1)
			} else {
				base, ok := channelid.FromCommandChannel(c)
				if !ok || base != x {
					r.Violation("cmd-not-reversible", map[string]any{"x": x, "c": c, "base": base, "ok": ok})
				}
				b2, ok2 := channelid.FromCommandChannel(x)
				if ok2 || b2 != x {
					r.Violation("cmd-from-noncommand-changed", map[string]any{"x": x, "base": b2, "ok": ok2})
				}
				r.Nontrivial("cmd|" + x)
			}
		})
		// agent channels
		y := c35GenUID(rng, false)
		z := c35GenUID(rng, false)
		r.Guard("agent", []string{y, z}, func() {
			id := channelid.EncodeAgentChannel(y, z)
			u, a, err := channelid.DecodeAgentChannel(id)
			if c35ValidUID(y) && c35ValidUID(z) {
				if err != nil || u != y || a != z {
					r.Violation("agent-roundtrip", map[string]any{"uid": y, "agent": z, "id": id, "u": u, "a": a, "err": fmt.Sprint(err)})
				}
				r.Count("agent_roundtrip_ok", 1)
			} else if err == nil && (u != y || a != z) {
				r.Violation("agent-misdecode", map[string]any{"uid": y, "agent": z, "id": id, "u": u, "a": a})
			}
		})
	}
}
