//go:build verif

package message_test

// C36, read-failure family. The fact-only family (c36_test.go) never lets a
// store read fail. Here a per-world PRNG predicate names logical reads
// (channel row / subscriber point lookup / list non-emptiness, identified by
// kind + channel id + channel type + uid) that fail. The point-read
// PermissionStore and the PermissionBatchStore honour the SAME predicate, so
// the batch port returns Err in exactly the per-read results for which the
// per-send port returns the same error.
//
// Oracle (own signatures):
//   path-disagreement-under-read-failure:<type>:...   the four paths must still
//       agree on (Reason, error?, injected-error class?, submitted?, channel);
//   read-failure-hid-deciding-fact:<type>:want=<Reason>   c36LazyModel walks the
//       documented check order consulting reads one at a time and stops at the
//       first deciding fact; when it decides without touching a failing read,
//       every path must return exactly that decision without error.
// When the lazy walk does touch a failing read before deciding, only path
// agreement is asserted (the observed result is counted).
//
// The lazy walk uses the order the tree documents (SendBan, then Disband, ...;
// Ban before Disband for groups); the literal "disbanded first" reading is the
// business of the fact-only family and is not re-reported here.

import (
	"context"
	"errors"
	"fmt"
	"hash/fnv"
	"math/rand/v2"
	"strings"
	"time"

	"github.com/WuKongIM/WuKongIM/internal/contracts/channelmembers"
	"github.com/WuKongIM/WuKongIM/internal/usecase/message"
	"github.com/WuKongIM/WuKongIM/pkg/protocol/channelid"
	"github.com/WuKongIM/WuKongIM/pkg/verifkit"
)

var c36ErrRead = errors.New("c36: injected permission read failure")

func c36FailPredicate(salt uint64, percent uint64) func(message.PermissionRead) bool {
	return func(rd message.PermissionRead) bool {
		h := fnv.New64a()
		fmt.Fprintf(h, "%d|%d|%s|%d|%s", salt, rd.Kind, rd.ChannelID, rd.ChannelType, rd.UID)
		return h.Sum64()%100 < percent
	}
}

type c36Lazy struct {
	f       *c36Facts
	fail    func(message.PermissionRead) bool
	touched bool // the walk needed a failing read before it could decide
	reads   int
}

func (l *c36Lazy) channel(id string, ty uint8) (flags struct{ found, ban, disband, sendBan, stranger bool }, ok bool) {
	l.reads++
	if l.fail(message.PermissionRead{Kind: message.PermissionReadChannel, ChannelID: id, ChannelType: int64(ty)}) {
		l.touched = true
		return flags, false
	}
	row, found := l.f.row(id, ty)
	flags.found, flags.ban, flags.disband, flags.sendBan, flags.stranger = found, row.Ban != 0, row.Disband != 0, row.SendBan != 0, row.AllowStranger != 0
	return flags, true
}

func (l *c36Lazy) contains(id string, ty uint8, uid string) (bool, bool) {
	l.reads++
	if l.fail(message.PermissionRead{Kind: message.PermissionReadSubscriberContains, ChannelID: id, ChannelType: int64(ty), UID: uid}) {
		l.touched = true
		return false, false
	}
	return l.f.in(id, ty, uid), true
}

func (l *c36Lazy) hasAny(id string, ty uint8) (bool, bool) {
	l.reads++
	if l.fail(message.PermissionRead{Kind: message.PermissionReadSubscriberHasAny, ChannelID: id, ChannelType: int64(ty)}) {
		l.touched = true
		return false, false
	}
	return len(l.f.members[c36Key{id, int64(ty)}]) > 0, true
}

func (l *c36Lazy) members(id string, ty uint8, uid string) message.Reason {
	key := channelmembers.ChannelKey{ChannelID: id, ChannelType: ty}
	if v, ok := l.contains(channelmembers.DenylistChannelID(key), ty, uid); !ok {
		return 0
	} else if v {
		return message.ReasonInBlacklist
	}
	if v, ok := l.contains(id, ty, uid); !ok {
		return 0
	} else if !v {
		return message.ReasonSubscriberNotExist
	}
	allow := channelmembers.AllowlistChannelID(key)
	if v, ok := l.hasAny(allow, ty); !ok || !v {
		return message.ReasonSuccess
	}
	if v, ok := l.contains(allow, ty, uid); ok && !v {
		return message.ReasonNotInWhitelist
	}
	return message.ReasonSuccess
}

// c36LazyModel returns the decision of the documented order, whether the id is
// malformed, and whether a failing read was needed before the decision.
func c36LazyModel(f *c36Facts, cfg c36Config, fail func(message.PermissionRead) bool, cmd message.SendCommand) (reason message.Reason, malformed, touched bool) {
	l := &c36Lazy{f: f, fail: fail}
	reason = c36LazyWalk(l, cfg, cmd, &malformed)
	return reason, malformed, l.touched
}

func c36LazyWalk(l *c36Lazy, cfg c36Config, cmd message.SendCommand, malformed *bool) message.Reason {
	if cmd.RequestScoped || (len(cmd.MessageScopedUIDs) > 0 && cmd.ChannelID == "") {
		return message.ReasonSuccess
	}
	src := strings.TrimSuffix(cmd.ChannelID, channelid.CommandChannelSuffix)
	if cmd.ChannelType == c36Person && cmd.NormalizePersonChannel {
		canon, err := channelid.NormalizePersonChannel(cmd.FromUID, src)
		if err != nil {
			*malformed = true
			return 0
		}
		src = canon
	}
	terminal := func() (message.Reason, bool) {
		row, ok := l.channel(src, cmd.ChannelType)
		if !ok {
			return 0, false
		}
		if row.found && row.disband {
			return message.ReasonDisband, true
		}
		return message.ReasonSuccess, true
	}
	if cfg.SystemUIDs[cmd.FromUID] {
		r, _ := terminal()
		return r
	}
	own, ok := l.channel(cmd.FromUID, c36Person)
	if !ok {
		return 0
	}
	if own.found && own.sendBan {
		return message.ReasonSendBan
	}
	if cfg.SystemDev != "" && cmd.DeviceID == cfg.SystemDev {
		r, _ := terminal()
		return r
	}
	if cmd.ChannelType == c36Group {
		row, ok := l.channel(src, c36Group)
		switch {
		case !ok:
			return 0
		case !row.found:
			return message.ReasonChannelNotExist
		case row.ban:
			return message.ReasonBan
		case row.disband:
			return message.ReasonDisband
		}
		return l.members(src, c36Group, cmd.FromUID)
	}
	if r, ok := terminal(); !ok || r != message.ReasonSuccess {
		return r
	}
	switch cmd.ChannelType {
	case c36Person:
		parts := strings.Split(src, "@")
		if len(parts) != 2 || parts[0] == "" || parts[1] == "" {
			*malformed = true
			return 0
		}
		receiver := parts[1]
		if cmd.FromUID == parts[1] {
			receiver = parts[0]
		}
		if cfg.SystemUIDs[receiver] {
			return message.ReasonSuccess
		}
		key := channelmembers.ChannelKey{ChannelID: receiver, ChannelType: c36Person}
		if v, ok := l.contains(channelmembers.DenylistChannelID(key), c36Person, cmd.FromUID); !ok {
			return 0
		} else if v {
			return message.ReasonInBlacklist
		}
		if !cfg.WhitelistOn {
			return message.ReasonSuccess
		}
		if v, ok := l.contains(channelmembers.AllowlistChannelID(key), c36Person, cmd.FromUID); !ok {
			return 0
		} else if v {
			return message.ReasonSuccess
		}
		row, ok := l.channel(receiver, c36Person)
		if !ok {
			return 0
		}
		if row.found && row.stranger {
			return message.ReasonSuccess
		}
		return message.ReasonNotInWhitelist
	case c36Agent:
		parts := strings.Split(src, "@")
		if len(parts) != 2 || parts[0] == "" || parts[1] == "" {
			*malformed = true
			return 0
		}
		if cmd.FromUID != parts[0] && cmd.FromUID != parts[1] {
			return message.ReasonNotAllowSend
		}
	case c36Visitors:
		if cmd.FromUID != src {
			return l.members(src, c36CS, cmd.FromUID)
		}
	}
	return message.ReasonSuccess
}

type c36RFObs struct {
	Reason    string `json:"reason"`
	Err       string `json:"err,omitempty"`
	Injected  bool   `json:"injected_read_error"`
	Submitted bool   `json:"submitted"`
	Channel   string `json:"submitted_channel,omitempty"`
}

func (o c36RFObs) key() string {
	return fmt.Sprintf("%s|err=%v|inj=%v|sub=%v|%s", o.Reason, o.Err != "", o.Injected, o.Submitted, o.Channel)
}

func (o c36RFObs) short() string {
	s := o.Reason
	if o.Injected {
		s += "+readerr"
	} else if o.Err != "" {
		s += "+err"
	}
	return s
}

func c36ReadFailureFamily(r *verifkit.Run, rng *rand.Rand, w *c36World, wi int, far []time.Time) {
	percent := []uint64{3, 8, 15, 30}[rng.IntN(4)]
	fail := c36FailPredicate(rng.Uint64(), percent)
	frozen := time.Unix(1_700_000_000, 0)
	bstore := &c36BatchStore{c36Store: c36Store{f: w.facts, fail: fail}}
	pstore := &c36Store{f: w.facts, fail: fail}
	cstore := &c36Store{f: w.facts, fail: fail}
	mk := func(name string, opts message.Options) c36Path {
		sub := &c36Submitter{got: map[string]string{}}
		opts.Submitter = sub
		opts.SystemUIDs = c36SysUIDs(w.cfg.SystemUIDs)
		opts.SystemDeviceID = w.cfg.SystemDev
		opts.PersonWhitelistEnabled = w.cfg.WhitelistOn
		return c36Path{name: name, app: message.New(opts), sub: sub}
	}
	paths := []c36Path{
		mk("batch", message.Options{PermissionStore: bstore, PermissionBatchStore: bstore}),
		mk("persend", message.Options{PermissionStore: pstore}),
		mk("cached", message.Options{PermissionStore: cstore, PermissionCacheTTL: time.Hour, Now: func() time.Time { return frozen }}),
		mk("single", message.Options{PermissionStore: pstore}),
	}
	nBatches := 1 + rng.IntN(3)
	for bi := 0; bi < nBatches; bi++ {
		n := 1 + rng.IntN(16)
		items := make([]c36Item, 0, n)
		for i := 0; i < n; i++ {
			items = append(items, w.genItem(rng, fmt.Sprintf("w%d.rf%d.i%d", wi, bi, i)))
		}
		var cancels []context.CancelFunc
		build := func() []message.SendBatchItem {
			out := make([]message.SendBatchItem, len(items))
			for i, it := range items {
				ctx := context.Background()
				if it.dl > 0 {
					c, cancel := context.WithDeadline(ctx, far[it.dl-1])
					cancels = append(cancels, cancel)
					ctx = c
				}
				cmd := it.cmd
				cmd.MessageScopedUIDs = append([]string(nil), cmd.MessageScopedUIDs...)
				out[i] = message.SendBatchItem{Context: ctx, Command: cmd}
			}
			return out
		}
		obs := make([][]c36RFObs, len(paths))
		complete := true
		for pi, p := range paths {
			var results []message.SendBatchItemResult
			panicked := r.Guard("SendBatch-under-read-failure:"+p.name, items, func() {
				if p.name == "single" {
					in := build()
					results = make([]message.SendBatchItemResult, len(in))
					for i := range in {
						res, err := p.app.Send(in[i].Context, in[i].Command)
						results[i] = message.SendBatchItemResult{Result: res, Err: err}
					}
				} else {
					results = p.app.SendBatch(build())
				}
			})
			got := p.sub.reset()
			if panicked || len(results) != len(items) {
				if !panicked {
					r.Violation("result-count-mismatch-under-read-failure:"+p.name, map[string]any{"items": len(items), "results": len(results)})
				}
				complete = false
				continue
			}
			obs[pi] = make([]c36RFObs, len(items))
			for i := range items {
				o := c36RFObs{Reason: c36ReasonName(results[i].Result.Reason)}
				if results[i].Err != nil {
					o.Err = results[i].Err.Error()
					o.Injected = errors.Is(results[i].Err, c36ErrRead)
				}
				o.Channel, o.Submitted = got[items[i].cmd.ClientMsgNo]
				obs[pi][i] = o
			}
		}
		for _, c := range cancels {
			c()
		}
		if !complete {
			continue
		}
		for i, it := range items {
			r.Eval(1)
			tn := c36TypeName(it.cmd.ChannelType)
			r.Count("rf.items", 1)
			per := map[string]c36RFObs{}
			for pi, p := range paths {
				per[p.name] = obs[pi][i]
			}
			want, malformed, touched := c36LazyModel(w.facts, w.cfg, fail, it.cmd)
			witness := func() map[string]any {
				return map[string]any{
					"command":       map[string]any{"from": it.cmd.FromUID, "device": it.cmd.DeviceID, "channel_id": it.cmd.ChannelID, "channel_type": it.cmd.ChannelType, "normalize_person": it.cmd.NormalizePersonChannel, "request_scoped": it.cmd.RequestScoped, "message_scoped_uids": it.cmd.MessageScopedUIDs},
					"config":        w.cfg,
					"fail_percent":  percent,
					"lazy_decision": c36ReasonName(want), "lazy_needed_failing_read": touched, "lazy_malformed_id": malformed,
					"observed": per, "batch_items": len(items), "kind": it.kind,
				}
			}
			for _, p := range paths {
				o := per[p.name]
				if o.Submitted != (o.Err == "" && o.Reason == "Success") {
					r.Violation("decision-inconsistent-under-read-failure:"+p.name+":"+tn, witness())
				}
			}
			agree := true
			for _, p := range paths[1:] {
				if per[p.name].key() != per["batch"].key() {
					agree = false
				}
			}
			if it.kind == "undecodable-person-unnormalized" {
				r.Count("rf.out_of_domain.undecodable_person", 1)
				continue
			}
			if !agree {
				var parts []string
				for _, p := range paths {
					parts = append(parts, p.name+"="+per[p.name].short())
				}
				r.Violation("path-disagreement-under-read-failure:"+tn+":"+strings.Join(parts, ","), witness())
				if it.kind == "in-domain" && !malformed && !touched {
					for _, p := range paths {
						if o := per[p.name]; o.Err != "" || o.Reason != c36ReasonName(want) {
							r.Violation(fmt.Sprintf("read-failure-hid-deciding-fact:%s:want=%s", tn, c36ReasonName(want)), witness())
							break
						}
					}
				}
				continue
			}
			if it.kind != "in-domain" || malformed {
				r.Count("rf.agree_only", 1)
				continue
			}
			o := per["batch"]
			if touched {
				// the documented walk itself needs the failing read: only path
				// agreement is asserted
				r.Count("rf.deciding_read_failed", 1)
				r.Count("rf.deciding_read_failed.observed."+o.short(), 1)
				continue
			}
			r.Count("rf.decided_without_failing_read", 1)
			if o.Err != "" || o.Reason != c36ReasonName(want) {
				r.Violation(fmt.Sprintf("read-failure-hid-deciding-fact:%s:want=%s", tn, c36ReasonName(want)), witness())
				continue
			}
			r.Count("rf.decided_without_failing_read."+tn, 1)
		}
	}
	r.Count("rf.batch_port_err_results", int(bstore.failed.Load()))
	r.Count("rf.point_read_errors", int(pstore.failed.Load()+cstore.failed.Load()))
}
