//go:build verif

package message_test

// C36 — "For any channel, sender and permission facts, the batched permission
// path and the per-send path return the same decision and reason, reasons
// follow a fixed precedence with disbanded channels first, and system senders
// bypass only the non-terminal checks."
//
// Differential monitor + precedence table. One PRNG fact base (channel rows
// with Ban/Disband/SendBan/AllowStranger, subscriber/deny/allow lists for every
// channel type over ONE shared id universe so that ids collide across types,
// system UIDs, system device, receiver-allowlist switch) is served to four
// entry paths of the real message.App:
//
//   batch   SendBatch on an App whose store implements PermissionBatchStore
//           (group and person items take the raw-fact batch evaluation)
//   persend SendBatch on an App without the batch port (checkSendPermission)
//   cached  SendBatch on an App with PermissionCacheTTL>0 (read-through cache,
//           batch port disabled by design); the fact base is immutable for
//           the life of the App, so the cache must be transparent
//   single  App.Send, one call per item
//
// A fake submitter records what would be appended. The oracle compares, per
// item, (Reason, error?, submitted?, submitted ChannelID) across the paths and
// against c36Model, an independent evaluation of the documented precedence.
//
// Interpretation of "disbanded channels first" (see c36Model): Disband is
// reported before every membership/list/participant reason, for every channel
// type, and is never bypassed by system senders. The clause is read literally:
// whenever Disband applies, Disband is the only permitted reason. The tree is
// known to report the sender's SendBan (pinned by its own unit tests) and a
// group's Ban ahead of Disband; those surface as
// precedence-disband-not-first:<type>:got=<Reason> (one signature per pair, all
// occurrences counted under sig.*, smallest witness kept, emitted last). The
// order among the remaining reasons stays asserted for those items too.

import (
	"context"
	"fmt"
	"math/rand/v2"
	"sort"
	"strings"
	"sync"
	"sync/atomic"
	"testing"
	"time"

	"github.com/WuKongIM/WuKongIM/internal/contracts/channelmembers"
	"github.com/WuKongIM/WuKongIM/internal/usecase/message"
	metadb "github.com/WuKongIM/WuKongIM/pkg/db/meta"
	"github.com/WuKongIM/WuKongIM/pkg/protocol/channelid"
	"github.com/WuKongIM/WuKongIM/pkg/verifkit"
)

const (
	c36Person   uint8 = 1
	c36Group    uint8 = 2
	c36CS       uint8 = 3
	c36Info     uint8 = 6
	c36Visitors uint8 = 10
	c36Agent    uint8 = 11
)

var c36AllTypes = []uint8{c36Person, c36Group, c36CS, 4, 5, c36Info, c36Visitors, c36Agent, 0}

func c36ReasonName(r message.Reason) string {
	switch r {
	case message.ReasonSuccess:
		return "Success"
	case message.ReasonChannelNotExist:
		return "ChannelNotExist"
	case message.ReasonSystemError:
		return "SystemError"
	case message.ReasonSubscriberNotExist:
		return "SubscriberNotExist"
	case message.ReasonInBlacklist:
		return "InBlacklist"
	case message.ReasonNotAllowSend:
		return "NotAllowSend"
	case message.ReasonNotInWhitelist:
		return "NotInWhitelist"
	case message.ReasonBan:
		return "Ban"
	case message.ReasonDisband:
		return "Disband"
	case message.ReasonSendBan:
		return "SendBan"
	}
	return fmt.Sprintf("Reason(%d)", uint8(r))
}

// ---------------------------------------------------------------- fact base

type c36Key struct {
	ID string
	Ty int64
}

type c36Facts struct {
	channels map[c36Key]metadb.Channel
	members  map[c36Key]map[string]bool
}

type c36Config struct {
	SystemUIDs  map[string]bool
	SystemDev   string
	WhitelistOn bool
}

type c36SysUIDs map[string]bool

func (s c36SysUIDs) IsSystemUID(uid string) bool { return s[uid] }

// c36Store is the per-send PermissionStore. It is read-only after creation.
type c36Store struct {
	f *c36Facts
	// fail is nil in the fact-only family. In the read-failure family it names
	// the logical reads that fail; the point-read port and the batch port
	// consult the same predicate with the same logical key.
	fail     func(message.PermissionRead) bool
	failed   atomic.Int64
	getCalls atomic.Int64
	conCalls atomic.Int64
	anyCalls atomic.Int64
}

func (s *c36Store) GetChannelForPermission(_ context.Context, id string, ty int64) (metadb.Channel, error) {
	s.getCalls.Add(1)
	if s.fail != nil && s.fail(message.PermissionRead{Kind: message.PermissionReadChannel, ChannelID: id, ChannelType: ty}) {
		s.failed.Add(1)
		return metadb.Channel{}, c36ErrRead
	}
	ch, ok := s.f.channels[c36Key{id, ty}]
	if !ok {
		return metadb.Channel{}, metadb.ErrNotFound
	}
	return ch, nil
}

func (s *c36Store) ContainsChannelSubscriber(_ context.Context, id string, ty int64, uid string) (bool, error) {
	s.conCalls.Add(1)
	if s.fail != nil && s.fail(message.PermissionRead{Kind: message.PermissionReadSubscriberContains, ChannelID: id, ChannelType: ty, UID: uid}) {
		s.failed.Add(1)
		return false, c36ErrRead
	}
	return s.f.members[c36Key{id, ty}][uid], nil
}

func (s *c36Store) HasChannelSubscribers(_ context.Context, id string, ty int64) (bool, error) {
	s.anyCalls.Add(1)
	if s.fail != nil && s.fail(message.PermissionRead{Kind: message.PermissionReadSubscriberHasAny, ChannelID: id, ChannelType: ty}) {
		s.failed.Add(1)
		return false, c36ErrRead
	}
	return len(s.f.members[c36Key{id, ty}]) > 0, nil
}

// c36BatchStore additionally implements the raw-fact batch port.
type c36BatchStore struct {
	c36Store
	batchCalls atomic.Int64
	batchReads atomic.Int64
}

func (s *c36BatchStore) ReadPermissionsBatch(_ context.Context, reads []message.PermissionRead) []message.PermissionReadResult {
	s.batchCalls.Add(1)
	s.batchReads.Add(int64(len(reads)))
	out := make([]message.PermissionReadResult, len(reads))
	for i, rd := range reads {
		key := c36Key{rd.ChannelID, rd.ChannelType}
		if s.fail != nil && s.fail(rd) {
			s.failed.Add(1)
			out[i].Err = c36ErrRead
			continue
		}
		switch rd.Kind {
		case message.PermissionReadChannel:
			out[i].Channel, out[i].Found = s.f.channels[key]
		case message.PermissionReadSubscriberContains:
			out[i].Value = s.f.members[key][rd.UID]
		case message.PermissionReadSubscriberHasAny:
			out[i].Value = len(s.f.members[key]) > 0
		default:
			out[i].Err = fmt.Errorf("c36: unknown permission read kind %d", rd.Kind)
		}
	}
	return out
}

// c36Submitter records what would be appended, keyed by ClientMsgNo.
type c36Submitter struct {
	mu  sync.Mutex
	got map[string]string // tag -> submitted ChannelID
	dup int
}

func (s *c36Submitter) take(cmd message.SendCommand) message.SendResult {
	s.mu.Lock()
	if _, ok := s.got[cmd.ClientMsgNo]; ok {
		s.dup++
	}
	s.got[cmd.ClientMsgNo] = cmd.ChannelID
	s.mu.Unlock()
	return message.SendResult{MessageID: 1, MessageSeq: 1, Reason: message.ReasonSuccess}
}

func (s *c36Submitter) Send(_ context.Context, cmd message.SendCommand) (message.SendResult, error) {
	return s.take(cmd), nil
}

func (s *c36Submitter) SendBatch(items []message.SendBatchItem) []message.SendBatchItemResult {
	out := make([]message.SendBatchItemResult, len(items))
	for i, it := range items {
		out[i].Result = s.take(it.Command)
	}
	return out
}

func (s *c36Submitter) reset() map[string]string {
	s.mu.Lock()
	defer s.mu.Unlock()
	got := s.got
	s.got = map[string]string{}
	return got
}

// ---------------------------------------------------------------- model

type c36Expect struct {
	WantErr   bool             // a malformed id: every path must fail with an error and submit nothing
	Permitted []message.Reason // reasons the statement permits (first = documented precedence)
	Chain     []message.Reason // every failing check that applies, in documented order
	Trust     string           // "", "sysuid", "sysdev", "sysreceiver"
	Bypassed  int              // non-terminal failing checks a trusted sender skipped
	Free      bool             // request-scoped: no permission check at all
	Disbanded bool             // Disband is one of the applicable reasons
}

func (f *c36Facts) row(id string, ty uint8) (metadb.Channel, bool) {
	ch, ok := f.channels[c36Key{id, int64(ty)}]
	return ch, ok
}

func (f *c36Facts) in(id string, ty uint8, uid string) bool {
	return f.members[c36Key{id, int64(ty)}][uid]
}

// memberChain lists the failing list/membership checks for one member-managed
// channel in documented order: denylist, subscriber, non-empty allowlist.
func (f *c36Facts) memberChain(id string, ty uint8, uid string) []message.Reason {
	key := channelmembers.ChannelKey{ChannelID: id, ChannelType: ty}
	var out []message.Reason
	if f.in(channelmembers.DenylistChannelID(key), ty, uid) {
		out = append(out, message.ReasonInBlacklist)
	}
	if !f.in(id, ty, uid) {
		out = append(out, message.ReasonSubscriberNotExist)
	}
	allow := channelmembers.AllowlistChannelID(key)
	if len(f.members[c36Key{allow, int64(ty)}]) > 0 && !f.in(allow, ty, uid) {
		out = append(out, message.ReasonNotInWhitelist)
	}
	return out
}

// c36Model evaluates the documented precedence independently of the code
// under test. It never looks at which path is used.
func c36Model(f *c36Facts, cfg c36Config, cmd message.SendCommand) c36Expect {
	if cmd.RequestScoped || (len(cmd.MessageScopedUIDs) > 0 && cmd.ChannelID == "") {
		return c36Expect{Free: true, Permitted: []message.Reason{message.ReasonSuccess}}
	}
	src := strings.TrimSuffix(cmd.ChannelID, channelid.CommandChannelSuffix)
	if cmd.ChannelType == c36Person && cmd.NormalizePersonChannel {
		canon, err := channelid.NormalizePersonChannel(cmd.FromUID, src)
		if err != nil {
			return c36Expect{WantErr: true}
		}
		src = canon
	}
	var exp c36Expect
	row, found := f.row(src, cmd.ChannelType)
	disbanded := found && row.Disband != 0

	// the non-terminal checks, in documented order, that would fail for an
	// ordinary sender
	var nonTerminalBefore, nonTerminalAfter []message.Reason
	if own, ok := f.row(cmd.FromUID, c36Person); ok && own.SendBan != 0 {
		nonTerminalBefore = append(nonTerminalBefore, message.ReasonSendBan)
	}
	receiverTrusted := false
	switch cmd.ChannelType {
	case c36Group:
		if !found {
			nonTerminalBefore = append(nonTerminalBefore, message.ReasonChannelNotExist)
		} else if row.Ban != 0 {
			nonTerminalBefore = append(nonTerminalBefore, message.ReasonBan)
		}
		nonTerminalAfter = f.memberChain(src, c36Group, cmd.FromUID)
	case c36Person:
		parts := strings.Split(src, "@")
		if len(parts) != 2 || parts[0] == "" || parts[1] == "" {
			return c36Expect{WantErr: true}
		}
		receiver := parts[1]
		if cmd.FromUID == parts[1] {
			receiver = parts[0]
		}
		if cfg.SystemUIDs[receiver] {
			receiverTrusted = true
			break
		}
		key := channelmembers.ChannelKey{ChannelID: receiver, ChannelType: c36Person}
		if f.in(channelmembers.DenylistChannelID(key), c36Person, cmd.FromUID) {
			nonTerminalAfter = append(nonTerminalAfter, message.ReasonInBlacklist)
		}
		if cfg.WhitelistOn && !f.in(channelmembers.AllowlistChannelID(key), c36Person, cmd.FromUID) {
			if rrow, ok := f.row(receiver, c36Person); !ok || rrow.AllowStranger == 0 {
				nonTerminalAfter = append(nonTerminalAfter, message.ReasonNotInWhitelist)
			}
		}
	case c36Agent:
		parts := strings.Split(src, "@")
		if len(parts) != 2 || parts[0] == "" || parts[1] == "" {
			return c36Expect{WantErr: true}
		}
		if cmd.FromUID != parts[0] && cmd.FromUID != parts[1] {
			nonTerminalAfter = append(nonTerminalAfter, message.ReasonNotAllowSend)
		}
	case c36Visitors:
		if cmd.FromUID != src {
			nonTerminalAfter = f.memberChain(src, c36CS, cmd.FromUID)
		}
	}

	sysUID := cfg.SystemUIDs[cmd.FromUID]
	sysDev := cfg.SystemDev != "" && cmd.DeviceID == cfg.SystemDev
	switch {
	case sysUID:
		// system UID: bypasses every non-terminal check, never Disband
		exp.Trust = "sysuid"
		exp.Bypassed = len(nonTerminalBefore) + len(nonTerminalAfter)
		if disbanded {
			exp.Chain = []message.Reason{message.ReasonDisband}
		}
	case sysDev:
		// system device: trusted only after the sender's own SendBan passed
		exp.Trust = "sysdev"
		for _, r := range nonTerminalBefore {
			if r == message.ReasonSendBan {
				exp.Chain = append(exp.Chain, r)
			} else {
				exp.Bypassed++
			}
		}
		exp.Bypassed += len(nonTerminalAfter)
		if disbanded {
			exp.Chain = append(exp.Chain, message.ReasonDisband)
		}
	default:
		if receiverTrusted {
			exp.Trust = "sysreceiver"
		}
		exp.Chain = append(exp.Chain, nonTerminalBefore...)
		if disbanded {
			exp.Chain = append(exp.Chain, message.ReasonDisband)
		}
		exp.Chain = append(exp.Chain, nonTerminalAfter...)
	}
	if len(exp.Chain) == 0 {
		exp.Permitted = []message.Reason{message.ReasonSuccess}
		return exp
	}
	// Literal reading of "disbanded channels first": Disband outranks every
	// other applicable reason, for system and non-system senders alike. Among
	// the remaining reasons the documented order decides.
	exp.Permitted = []message.Reason{exp.Chain[0]}
	for _, r := range exp.Chain {
		if r == message.ReasonDisband {
			exp.Permitted = []message.Reason{message.ReasonDisband}
			exp.Disbanded = true
		}
	}
	return exp
}

// ---------------------------------------------------------------- generation

type c36World struct {
	ids   []string
	facts *c36Facts
	cfg   c36Config
}

func c36GenWorld(rng *rand.Rand) *c36World {
	w := &c36World{ids: []string{"a", "b", "c", "d", "e", "f"}[:3+rng.IntN(4)]}
	f := &c36Facts{channels: map[c36Key]metadb.Channel{}, members: map[c36Key]map[string]bool{}}
	w.facts = f
	pRow := []float64{0.4, 0.7, 0.95}[rng.IntN(3)]
	pFlag := []float64{0.15, 0.3, 0.5}[rng.IntN(3)]
	flag := func() int64 {
		if rng.Float64() < pFlag {
			return 1
		}
		return 0
	}
	putRow := func(id string, ty uint8) {
		if rng.Float64() < pRow {
			f.channels[c36Key{id, int64(ty)}] = metadb.Channel{ChannelID: id, ChannelType: int64(ty), Ban: flag(), Disband: flag(), SendBan: flag(), AllowStranger: flag()}
		}
	}
	putList := func(id string, ty uint8, p float64) {
		for _, uid := range w.ids {
			if rng.Float64() < p {
				k := c36Key{id, int64(ty)}
				if f.members[k] == nil {
					f.members[k] = map[string]bool{}
				}
				f.members[k][uid] = true
			}
		}
	}
	for _, ty := range c36AllTypes {
		for _, id := range w.ids {
			putRow(id, ty)
			// member facts under every type, so that a lookup under the wrong
			// type returns something different
			key := channelmembers.ChannelKey{ChannelID: id, ChannelType: ty}
			putList(id, ty, 0.55)
			putList(channelmembers.DenylistChannelID(key), ty, 0.25)
			if rng.IntN(2) == 0 {
				putList(channelmembers.AllowlistChannelID(key), ty, 0.5)
			}
		}
	}
	for _, x := range w.ids {
		for _, y := range w.ids {
			putRow(channelid.EncodePersonChannel(x, y), c36Person)
			putRow(channelid.EncodeAgentChannel(x, y), c36Agent)
			// same ids under other types as decoys
			if rng.IntN(3) == 0 {
				putRow(channelid.EncodePersonChannel(x, y), c36Group)
			}
		}
	}
	w.cfg = c36Config{SystemUIDs: map[string]bool{}, WhitelistOn: rng.IntN(2) == 0}
	for _, id := range w.ids {
		if rng.IntN(5) == 0 {
			w.cfg.SystemUIDs[id] = true
		}
	}
	if rng.IntN(3) != 0 {
		w.cfg.SystemDev = "sysdev"
	}
	return w
}

type c36Item struct {
	cmd  message.SendCommand
	kind string // in-domain | undecodable-person-unnormalized | foreign-person-unnormalized
	dl   int    // 0 none, 1/2 = far context deadline cohort
}

func (w *c36World) genItem(rng *rand.Rand, tag string) c36Item {
	pick := func() string { return w.ids[rng.IntN(len(w.ids))] }
	cmd := message.SendCommand{FromUID: pick(), ClientMsgNo: tag, Payload: []byte("x")}
	switch rng.IntN(10) {
	case 0, 1:
		cmd.DeviceID = "sysdev"
	case 2, 3, 4:
		cmd.DeviceID = "dev1"
	}
	if rng.IntN(2) == 0 {
		cmd.SenderNodeID, cmd.SenderSessionID = 1, uint64(1+rng.IntN(3))
	}
	it := c36Item{kind: "in-domain"}
	switch x := rng.IntN(100); {
	case x < 30:
		cmd.ChannelType, cmd.ChannelID = c36Group, pick()
	case x < 62:
		cmd.ChannelType = c36Person
		cmd.NormalizePersonChannel = true
		switch y := rng.IntN(100); {
		case y < 60:
			cmd.ChannelID = pick()
		case y < 78:
			cmd.ChannelID = channelid.EncodePersonChannel(cmd.FromUID, pick())
		case y < 84:
			// canonical id of two other users: normalisation must fail on every path
			cmd.ChannelID = channelid.EncodePersonChannel(pick(), pick())
		case y < 96:
			cmd.NormalizePersonChannel = false
			cmd.ChannelID = channelid.EncodePersonChannel(cmd.FromUID, pick())
		case y < 98:
			cmd.NormalizePersonChannel = false
			cmd.ChannelID = pick() // not a person channel id at all
			it.kind = "undecodable-person-unnormalized"
		default:
			cmd.NormalizePersonChannel = false
			cmd.ChannelID = channelid.EncodePersonChannel(pick(), pick())
			it.kind = "foreign-person-unnormalized"
		}
	case x < 70:
		cmd.ChannelType, cmd.ChannelID = c36Visitors, pick()
	case x < 78:
		cmd.ChannelType, cmd.ChannelID = c36Agent, channelid.EncodeAgentChannel(pick(), pick())
	case x < 84:
		cmd.ChannelType, cmd.ChannelID = c36CS, pick()
	case x < 90:
		cmd.ChannelType, cmd.ChannelID = c36Info, pick()
	default:
		cmd.ChannelType, cmd.ChannelID = []uint8{4, 5, 0}[rng.IntN(3)], pick()
	}
	if rng.IntN(7) == 0 {
		cmd.ChannelID = channelid.ToCommandChannel(cmd.ChannelID)
	}
	if rng.IntN(60) == 0 {
		cmd.RequestScoped = true
	} else if rng.IntN(60) == 0 {
		cmd.MessageScopedUIDs = []string{pick()} // channel id kept: permission still applies
	}
	if rng.IntN(7) == 0 {
		it.dl = 1 + rng.IntN(2)
	}
	it.cmd = cmd
	return it
}

// ---------------------------------------------------------------- harness

type c36Dev struct {
	size    int
	witness map[string]any
}

type c36Obs struct {
	Reason    string `json:"reason"`
	Err       string `json:"err,omitempty"`
	Submitted bool   `json:"submitted"`
	Channel   string `json:"submitted_channel,omitempty"`
}

func (o c36Obs) key() string {
	return fmt.Sprintf("%s|err=%v|sub=%v|%s", o.Reason, o.Err != "", o.Submitted, o.Channel)
}

type c36Path struct {
	name string
	app  *message.App
	sub  *c36Submitter
}

func c36TypeName(t uint8) string {
	switch t {
	case c36Person:
		return "person"
	case c36Group:
		return "group"
	case c36CS:
		return "customer-service"
	case c36Info:
		return "info"
	case c36Visitors:
		return "visitors"
	case c36Agent:
		return "agent"
	}
	return fmt.Sprintf("type%d", t)
}

func TestVerifC36(t *testing.T) {
	r := verifkit.Start(t, "C36", "main")
	defer r.Finish()
	r.SetRule("A world = one PRNG fact base over a shared id universe (3-6 ids used as uids AND as channel ids of every type: rows with Ban/Disband/SendBan/AllowStranger, subscriber/deny/allow lists under every type, person-pair and agent-pair rows, system UIDs, system device, receiver-allowlist switch). Each world serves several batches of 1-24 sends mixing all channel types, command channels, normalised/unnormalised person ids, duplicate scopes, session lanes and two context-deadline cohorts to four paths (batched raw-fact SendBatch, per-send SendBatch, cached per-send SendBatch, single Send). One evaluation = one item compared across the paths and against the precedence model. Non-trivial = at least two failing checks apply at once, or a trusted sender skips at least one failing non-terminal check; distinct by (channel type, trust class, chain of applicable reasons, observed reason).")
	r.Assume("The fact base does not change during the life of an App (the TTL cache is allowed to be stale by design; the clock handed to it is frozen).")
	r.Assume("'Disbanded channels first' is read literally: when Disband applies no other reason is permitted; deviations are reported as precedence-disband-not-first:<type>:got=<Reason> (one kept witness per signature, all counted under sig.*).")
	r.Assume("Person sends whose id cannot be decoded while NormalizePersonChannel=false are outside the domain (every entry adapter sets the flag for person channels); they are driven and only counted.")

	worlds := r.N(8000, 90000)
	frozen := time.Unix(1_700_000_000, 0)
	far := []time.Time{time.Now().Add(6 * time.Hour), time.Now().Add(7 * time.Hour)}
	var batchCalls, batchReads, perSendReads int64
	disbandDev := map[string]c36Dev{}

	for wi := 0; wi < worlds; wi++ {
		if r.Skip(wi) {
			continue
		}
		rng := r.Rand(36, uint64(wi))
		w := c36GenWorld(rng)
		r.BeginCase(wi, fmt.Sprintf("world ids=%d sysuids=%d sysdev=%q whitelist=%v rows=%d", len(w.ids), len(w.cfg.SystemUIDs), w.cfg.SystemDev, w.cfg.WhitelistOn, len(w.facts.channels)))

		bstore := &c36BatchStore{c36Store: c36Store{f: w.facts}}
		pstore := &c36Store{f: w.facts}
		cstore := &c36Store{f: w.facts}
		mk := func(name string, opts message.Options) c36Path {
			sub := &c36Submitter{got: map[string]string{}}
			opts.Submitter = sub
			opts.SystemUIDs = c36SysUIDs(w.cfg.SystemUIDs)
			opts.SystemDeviceID = w.cfg.SystemDev
			opts.PersonWhitelistEnabled = w.cfg.WhitelistOn
			return c36Path{name: name, app: message.New(opts), sub: sub}
		}
		paths := []c36Path{
			mk("batch", message.Options{PermissionStore: bstore, PermissionBatchStore: bstore}),
			mk("persend", message.Options{PermissionStore: pstore}),
			mk("cached", message.Options{PermissionStore: cstore, PermissionCacheTTL: time.Hour, Now: func() time.Time { return frozen }}),
			mk("single", message.Options{PermissionStore: pstore}),
		}

		nBatches := 2 + rng.IntN(5)
		for bi := 0; bi < nBatches; bi++ {
			n := 1 + rng.IntN(24)
			items := make([]c36Item, 0, n)
			for i := 0; i < n; i++ {
				tag := fmt.Sprintf("w%d.b%d.i%d", wi, bi, i)
				if i > 0 && rng.IntN(5) == 0 {
					dup := items[rng.IntN(i)]
					dup.cmd.ClientMsgNo = tag
					items = append(items, dup)
					continue
				}
				items = append(items, w.genItem(rng, tag))
			}
			var cancels []context.CancelFunc
			build := func() []message.SendBatchItem {
				out := make([]message.SendBatchItem, len(items))
				for i, it := range items {
					ctx := context.Background()
					if it.dl > 0 {
						c, cancel := context.WithDeadline(ctx, far[it.dl-1])
						cancels = append(cancels, cancel)
						ctx = c
					}
					cmd := it.cmd
					cmd.MessageScopedUIDs = append([]string(nil), cmd.MessageScopedUIDs...)
					out[i] = message.SendBatchItem{Context: ctx, Command: cmd}
				}
				return out
			}
			obs := make([][]c36Obs, len(paths))
			for pi, p := range paths {
				var results []message.SendBatchItemResult
				panicked := r.Guard("SendBatch:"+p.name, items, func() {
					if p.name == "single" {
						in := build()
						results = make([]message.SendBatchItemResult, len(in))
						for i := range in {
							res, err := p.app.Send(in[i].Context, in[i].Command)
							results[i] = message.SendBatchItemResult{Result: res, Err: err}
						}
					} else {
						results = p.app.SendBatch(build())
					}
				})
				got := p.sub.reset()
				if panicked {
					continue
				}
				if len(results) != len(items) {
					r.Violation("result-count-mismatch:"+p.name, map[string]any{"items": len(items), "results": len(results)})
					continue
				}
				obs[pi] = make([]c36Obs, len(items))
				for i := range items {
					o := c36Obs{Reason: c36ReasonName(results[i].Result.Reason)}
					if results[i].Err != nil {
						o.Err = results[i].Err.Error()
					}
					o.Channel, o.Submitted = got[items[i].cmd.ClientMsgNo]
					obs[pi][i] = o
				}
			}
			for _, c := range cancels {
				c()
			}

			for i, it := range items {
				r.Eval(1)
				exp := c36Model(w.facts, w.cfg, it.cmd)
				per := map[string]c36Obs{}
				complete := true
				for pi, p := range paths {
					if obs[pi] == nil {
						complete = false
						continue
					}
					per[p.name] = obs[pi][i]
				}
				if !complete {
					continue
				}
				witness := func() map[string]any {
					src := strings.TrimSuffix(it.cmd.ChannelID, channelid.CommandChannelSuffix)
					if it.cmd.ChannelType == c36Person && it.cmd.NormalizePersonChannel {
						if canon, err := channelid.NormalizePersonChannel(it.cmd.FromUID, src); err == nil {
							src = canon
						}
					}
					row, found := w.facts.row(src, it.cmd.ChannelType)
					own, ownFound := w.facts.row(it.cmd.FromUID, c36Person)
					chain := []string{}
					for _, x := range exp.Chain {
						chain = append(chain, c36ReasonName(x))
					}
					return map[string]any{
						"command": map[string]any{"from": it.cmd.FromUID, "device": it.cmd.DeviceID, "channel_id": it.cmd.ChannelID, "channel_type": it.cmd.ChannelType, "normalize_person": it.cmd.NormalizePersonChannel, "request_scoped": it.cmd.RequestScoped, "message_scoped_uids": it.cmd.MessageScopedUIDs},
						"config":  w.cfg, "source_channel_id": src, "source_channel_row_found": found, "source_channel_row": row,
						"sender_row_found": ownFound, "sender_row": own,
						"model_chain": chain, "model_trust": exp.Trust, "model_want_err": exp.WantErr,
						"observed": per, "batch_items": len(items), "kind": it.kind,
					}
				}
				tn := c36TypeName(it.cmd.ChannelType)
				r.Count("items."+tn, 1)
				r.Count("items.kind."+it.kind, 1)

				// 1. internal consistency of each path: submitted <=> success without error
				for _, p := range paths {
					o := per[p.name]
					if o.Submitted != (o.Err == "" && o.Reason == "Success") {
						r.Violation("decision-inconsistent:"+p.name+":"+tn, witness())
					}
				}
				// 2. path agreement
				agree := true
				for _, p := range paths[1:] {
					if per[p.name].key() != per["batch"].key() {
						agree = false
					}
				}
				if it.kind == "undecodable-person-unnormalized" {
					// outside the domain: count only
					if !agree {
						r.Count("out_of_domain.undecodable_person.path_disagreement", 1)
					} else {
						r.Count("out_of_domain.undecodable_person.agree", 1)
					}
					continue
				}
				if !agree {
					var parts []string
					for _, p := range paths {
						o := per[p.name]
						e := ""
						if o.Err != "" {
							e = "+err"
						}
						parts = append(parts, p.name+"="+o.Reason+e)
					}
					r.Violation("path-disagreement:"+tn+":"+strings.Join(parts, ","), witness())
					continue
				}
				o := per["batch"]
				r.Count("outcome."+o.Reason, 1)
				if it.kind != "in-domain" {
					r.Count("out_of_domain.foreign_person.agree", 1)
					continue
				}
				// 3. precedence table
				if exp.WantErr {
					r.Count("model.malformed_id", 1)
					if o.Err == "" || o.Submitted {
						r.Violation("malformed-id-not-rejected:"+tn, witness())
					}
					continue
				}
				if o.Err != "" {
					r.Violation("unexpected-error:"+tn, witness())
					continue
				}
				ok := false
				for _, p := range exp.Permitted {
					if c36ReasonName(p) == o.Reason {
						ok = true
					}
				}
				sysBypass := (exp.Trust == "sysuid" || exp.Trust == "sysdev") && o.Reason == "Success"
				if !ok && exp.Disbanded && !sysBypass {
					// Deviation from the literal clause "disbanded channels first".
					// One signature per (type, reason); all occurrences counted, the
					// smallest witness kept and emitted at the end of the run so that
					// any other violation keeps its place in the bounded report.
					sig := fmt.Sprintf("precedence-disband-not-first:%s:got=%s", tn, o.Reason)
					r.Count("sig."+sig, 1)
					size := len(exp.Chain)*1000 + len(items)
					if cur, seen := disbandDev[sig]; !seen || size < cur.size {
						disbandDev[sig] = c36Dev{size: size, witness: witness()}
					}
					// the order among the other reasons stays asserted
					first := ""
					for _, x := range exp.Chain {
						if x != message.ReasonDisband {
							first = c36ReasonName(x)
							break
						}
					}
					if first != "" && o.Reason != first {
						r.Violation(fmt.Sprintf("precedence:%s:trust=%s:want=Disband|%s:got=%s", tn, exp.Trust, first, o.Reason), witness())
					}
					continue
				}
				if !ok {
					want := []string{}
					for _, p := range exp.Permitted {
						want = append(want, c36ReasonName(p))
					}
					sig := fmt.Sprintf("precedence:%s:trust=%s:want=%s:got=%s", tn, exp.Trust, strings.Join(want, "|"), o.Reason)
					if exp.Trust == "sysuid" || exp.Trust == "sysdev" {
						if len(exp.Chain) > 0 && o.Reason == "Success" {
							sig = fmt.Sprintf("system-sender-bypassed-terminal-check:%s:trust=%s:want=%s", tn, exp.Trust, strings.Join(want, "|"))
						} else if len(exp.Chain) == 0 {
							sig = fmt.Sprintf("system-sender-not-bypassing:%s:trust=%s:got=%s", tn, exp.Trust, o.Reason)
						}
					}
					r.Violation(sig, witness())
					continue
				}
				if exp.Trust != "" {
					r.Count("trust."+exp.Trust, 1)
				}
				if exp.Free {
					r.Count("model.permission_free", 1)
				}
				if len(exp.Chain) >= 2 || exp.Bypassed > 0 {
					chain := []string{}
					for _, x := range exp.Chain {
						chain = append(chain, c36ReasonName(x))
					}
					r.Nontrivial(fmt.Sprintf("%s|%s|%s|byp=%v|%s", tn, exp.Trust, strings.Join(chain, ">"), exp.Bypassed > 0, o.Reason))
				}
				if r.WantSample() && (wi*31+bi*7+i)%997 == 5 {
					r.Sample(witness())
				}
			}
			r.Max("max_batch_items", len(items))
		}
		c36ReadFailureFamily(r, rng, w, wi, far)
		batchCalls += bstore.batchCalls.Load()
		batchReads += bstore.batchReads.Load()
		perSendReads += pstore.getCalls.Load() + pstore.conCalls.Load() + pstore.anyCalls.Load()
		r.Count("cached_store_reads", int(cstore.getCalls.Load()+cstore.conCalls.Load()+cstore.anyCalls.Load()))
		r.Count("batch_path_fallback_point_reads", int(bstore.getCalls.Load()+bstore.conCalls.Load()+bstore.anyCalls.Load()))
		for _, p := range paths {
			if p.sub.dup > 0 {
				r.Violation("item-submitted-twice:"+p.name, map[string]any{"world": wi, "duplicates": p.sub.dup})
			}
		}
		if r.NumViolations() >= 10 {
			break
		}
	}
	// deferred emission: unexpected (type, reason) pairs first
	devSigs := make([]string, 0, len(disbandDev))
	for sig := range disbandDev {
		devSigs = append(devSigs, sig)
	}
	known := func(sig string) bool {
		return strings.HasSuffix(sig, ":got=SendBan") || sig == "precedence-disband-not-first:group:got=Ban"
	}
	sort.Slice(devSigs, func(i, j int) bool {
		if known(devSigs[i]) != known(devSigs[j]) {
			return !known(devSigs[i])
		}
		return devSigs[i] < devSigs[j]
	})
	for _, sig := range devSigs {
		r.Violation(sig, disbandDev[sig].witness)
	}
	r.Count("worlds", worlds)
	r.Count("batch_port_calls", int(batchCalls))
	r.Count("batch_port_reads", int(batchReads))
	r.Count("persend_store_reads", int(perSendReads))
	if batchCalls == 0 {
		r.Inconclusive("the batched raw-fact path was never taken")
	}
}
