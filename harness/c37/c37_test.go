//go:build verif

package workqueue_test

// C37 — Work queues run each accepted task exactly once.
//
// An exactly-once ledger (atomic counters per task id) watches the four real
// pkg/workqueue primitives under PRNG configurations, 1–32 racing producers,
// handler latency/errors/panics and Close at PRNG logical instants.
//
// Asserted (all from the statement):
//   * admitted (Submit/SubmitWait returned nil) ⇒ handler ran exactly once, or —
//     only on a batch pool with CancelAcceptedOnClose — the cancel hook ran
//     exactly once and the handler never did;
//   * rejected (any error) ⇒ neither handler nor hook ever sees the task;
//   * Close returned nil ⇒ every admitted task was already settled (handler
//     *finished* or hook ran) at that instant, and no handler starts later;
//   * a call that begins after Close returned never admits;
//   * mailbox: per shard at most one handler call in flight, items of one
//     producer delivered to one shard in that producer's submission order, a
//     key always lands on the same shard.
// Not asserted: worker-count limits, batch sizes, ErrFull precision, anything
// after Close returned a (deadline) error except at-most-once — the statement
// promises none of those.

import (
	"context"
	"errors"
	"fmt"
	"runtime"
	"sync"
	"sync/atomic"
	"testing"
	"time"

	"github.com/WuKongIM/WuKongIM/pkg/verifkit"
	"github.com/WuKongIM/WuKongIM/pkg/workqueue"
)

const (
	c37KindPool = iota
	c37KindBatch
	c37KindWQ
	c37KindMailbox
	c37NumKinds
)

var c37KindName = [...]string{"pool", "batch", "wq", "mailbox"}

const (
	c37CloseAfterJoin   = iota // quiescent: all producers returned first
	c37CloseAtSubmitK          // when the K-th submit call returns
	c37CloseAtStartK           // when the K-th handler item starts
	c37CloseAtEndK             // when the K-th handler item ends
	c37CloseImmediately        // races the very first submissions
	c37NumCloseModes
)

var c37CloseName = [...]string{"afterjoin", "submitK", "startK", "endK", "immediate"}

const (
	c37OutNone = int8(iota)
	c37OutAdmitted
	c37OutFull
	c37OutClosed
	c37OutCtx
	c37OutOther
)

type c37Item struct {
	ID   int32
	Prod int32
	Seq  int32
	Key  int32
}

type c37Cfg struct {
	Kind    int
	Workers int
	Queue   int
	// batch pool
	PolicyMode     int // 0 nil, 1 fixed, 2 per-item
	MaxItems       int
	MaxWaitUS      int
	CancelAccepted bool
	CancelHook     bool
	CancelRunning  bool
	// mailbox
	Shards         int
	BatchMaxItems  int
	BatchMaxWaitUS int
	Keys           int
	// workload
	Producers   int
	Quota       int // submit calls per producer
	Hammer      bool
	WaitPct     int
	CloseMode   int
	CloseK      int
	CloseJitter int // 0 none, 1 gosched×n, 2 short sleep
	CloseCtxUS  int // 0 = background
	DoubleClose bool
	Lat         int
	ErrPct      int
	PanicPct    int
	Observer    int // 0 nil, 1 counting, 2 yielding
	Procs       int // 0 = leave GOMAXPROCS
	ReleaseMS   int
}

func (c c37Cfg) String() string {
	return fmt.Sprintf("%s w=%d q=%d pol=%d/%d/%dus cancelAcc=%v hook=%v cancelRun=%v shards=%d bmax=%d bwait=%dus keys=%d prod=%d quota=%d hammer=%v wait%%=%d close=%s@%d jit=%d cctx=%dus dbl=%v lat=%d err%%=%d panic%%=%d obs=%d procs=%d",
		c37KindName[c.Kind], c.Workers, c.Queue, c.PolicyMode, c.MaxItems, c.MaxWaitUS, c.CancelAccepted, c.CancelHook, c.CancelRunning,
		c.Shards, c.BatchMaxItems, c.BatchMaxWaitUS, c.Keys, c.Producers, c.Quota, c.Hammer, c.WaitPct, c37CloseName[c.CloseMode], c.CloseK,
		c.CloseJitter, c.CloseCtxUS, c.DoubleClose, c.Lat, c.ErrPct, c.PanicPct, c.Observer, c.Procs)
}

type c37Queue interface {
	submit(ctx context.Context, it c37Item, wait bool) error
	close(ctx context.Context) error
}

type c37PoolQ struct{ p *workqueue.BoundedPool[c37Item] }

func (q c37PoolQ) submit(ctx context.Context, it c37Item, wait bool) error {
	if wait {
		return q.p.SubmitWait(ctx, it)
	}
	return q.p.Submit(ctx, it)
}
func (q c37PoolQ) close(ctx context.Context) error { return q.p.Close(ctx) }

type c37BatchQ struct{ p *workqueue.BoundedBatchPool[c37Item] }

func (q c37BatchQ) submit(ctx context.Context, it c37Item, _ bool) error { return q.p.Submit(ctx, it) }
func (q c37BatchQ) close(ctx context.Context) error                     { return q.p.Close(ctx) }

type c37WQ struct {
	p *workqueue.BoundedWorkerQueue[c37Item]
}

func (q c37WQ) submit(ctx context.Context, it c37Item, wait bool) error {
	if wait {
		return q.p.SubmitWait(ctx, it)
	}
	return q.p.Submit(ctx, it)
}
func (q c37WQ) close(ctx context.Context) error { return q.p.Close(ctx) }

type c37MailboxQ struct {
	p      *workqueue.ShardedMailbox[c37Item]
	hashes []uint64 // key index -> hash; keys with odd index use the string form
}

func (q c37MailboxQ) submit(ctx context.Context, it c37Item, _ bool) error {
	if it.Key&1 == 1 {
		return q.p.Submit(ctx, fmt.Sprintf("c37-key-%d", it.Key), it)
	}
	return q.p.SubmitHash(ctx, q.hashes[it.Key], it)
}
func (q c37MailboxQ) close(ctx context.Context) error { return q.p.Close(ctx) }

// c37Obs is a concurrency-safe, non-blocking observer; mode 2 yields the
// processor on a fraction of observations to perturb schedules inside the
// queue's own critical windows.
type c37Obs struct {
	n     atomic.Uint64
	yield bool
}

func (o *c37Obs) tick() {
	v := o.n.Add(1)
	if o.yield && c37Mix(v)%5 == 0 {
		runtime.Gosched()
	}
}
func (o *c37Obs) ObserveBoundedPool(workqueue.BoundedPoolObservation)       { o.tick() }
func (o *c37Obs) ObserveShardedMailbox(workqueue.ShardedMailboxObservation) { o.tick() }

func c37Mix(x uint64) uint64 {
	x += 0x9e3779b97f4a7c15
	x = (x ^ (x >> 30)) * 0xbf58476d1ce4e5b9
	x = (x ^ (x >> 27)) * 0x94d049bb133111eb
	return x ^ (x >> 31)
}

type c37Case struct {
	r    *verifkit.Run
	idx  int
	cfg  c37Cfg
	salt uint64
	n    int
	q    c37Queue

	started   []atomic.Int32
	finished  []atomic.Int32
	cancelled []atomic.Int32
	outcome   []int8 // written by the owning producer only, read after join

	closeNil  atomic.Bool // some Close call has returned nil
	closeDone atomic.Bool // the primary Close call has returned
	lateStart atomic.Int64
	lateID    atomic.Int64
	lateHook  atomic.Int64

	submitReturns atomic.Int64
	hStarts       atomic.Int64
	hEnds         atomic.Int64
	trigOnce      sync.Once
	trig          chan struct{}

	admitAfterClose atomic.Int64
	admitAfterID    atomic.Int64
	badItem         atomic.Int64
	panics          atomic.Int64
	herrs           atomic.Int64
	batches         atomic.Int64
	maxBatch        atomic.Int64
	curRun          atomic.Int64
	maxRun          atomic.Int64

	// mailbox
	active     []atomic.Int32 // per shard: handler calls in flight
	concDrain  atomic.Int64
	concShard  atomic.Int64
	last       []atomic.Int64 // [prod*shards+shard] last seq seen, -1 initially
	orderViol  atomic.Int64
	orderChk   atomic.Int64
	keyShard   []atomic.Int32 // key -> first observed shard, -1 initially
	unstable   atomic.Int64
	badShard   atomic.Int64
	witMu      sync.Mutex
	orderWit   map[string]any
	shardWit   map[string]any
	maxConcObs atomic.Int64
}

func c37AtomicMax(a *atomic.Int64, v int64) {
	for {
		o := a.Load()
		if v <= o || a.CompareAndSwap(o, v) {
			return
		}
	}
}

func (c *c37Case) fire() { c.trigOnce.Do(func() { close(c.trig) }) }

func (c *c37Case) begin(it c37Item) bool {
	id := int(it.ID)
	if id < 0 || id >= c.n || int(it.Prod) != id/c.cfg.Quota || int(it.Seq) != id%c.cfg.Quota {
		c.badItem.Add(1)
		return false
	}
	if c.closeNil.Load() {
		c.lateStart.Add(1)
		c.lateID.CompareAndSwap(-1, int64(id))
	}
	c.started[id].Add(1)
	if k := c.hStarts.Add(1); c.cfg.CloseMode == c37CloseAtStartK && k == int64(c.cfg.CloseK) {
		c.fire()
	}
	return true
}

func (c *c37Case) end(it c37Item) {
	id := int(it.ID)
	if id < 0 || id >= c.n {
		return
	}
	c.finished[id].Add(1)
	if k := c.hEnds.Add(1); c.cfg.CloseMode == c37CloseAtEndK && k == int64(c.cfg.CloseK) {
		c.fire()
	}
}

// work applies the PRNG latency/err/panic behaviour of task id (a pure
// function of the case salt and id).
func (c *c37Case) work(ctx context.Context, id int32) (err error, doPanic bool) {
	h := c37Mix(c.salt ^ (uint64(uint32(id)) * 0x9e3779b97f4a7c15))
	switch c.cfg.Lat {
	case 1:
		for i := 0; i < int(h%4); i++ {
			runtime.Gosched()
		}
	case 2, 3:
		p := h % 16
		switch {
		case p < 6:
		case p < 10:
			runtime.Gosched()
		case p < 12:
			x := uint64(0)
			for i := 0; i < 200+int((h>>8)%2000); i++ {
				x += c37Mix(uint64(i))
			}
			if x == 42 {
				runtime.Gosched()
			}
		case p < 15:
			d := time.Duration(1+(h>>8)%100) * time.Microsecond
			if c.cfg.Lat == 3 {
				d *= 4
			}
			time.Sleep(d)
		default:
			t := time.NewTimer(time.Duration(20+(h>>8)%300) * time.Microsecond)
			select {
			case <-t.C:
			case <-ctx.Done():
				t.Stop()
			}
		}
	}
	e := int((h >> 40) % 100)
	if e < c.cfg.PanicPct {
		return nil, true
	}
	if e < c.cfg.PanicPct+c.cfg.ErrPct {
		return errors.New("c37 injected handler error"), false
	}
	return nil, false
}

func (c *c37Case) handleItems(ctx context.Context, items []c37Item) error {
	ok := make([]bool, len(items))
	for i := range items {
		ok[i] = c.begin(items[i])
	}
	cur := c.curRun.Add(1)
	c37AtomicMax(&c.maxRun, cur)
	c.batches.Add(1)
	c37AtomicMax(&c.maxBatch, int64(len(items)))
	// Copy: ShardedMailbox reuses the slice only after the handler returns,
	// but the deferred loop must not depend on that.
	own := append([]c37Item(nil), items...)
	defer func() {
		c.curRun.Add(-1)
		for i := range own {
			if ok[i] {
				c.end(own[i])
			}
		}
	}()
	if len(items) == 0 {
		return nil
	}
	var err error
	for i := range own {
		e, p := c.work(ctx, own[i].ID)
		if p {
			c.panics.Add(1)
			panic("c37 injected handler panic")
		}
		if e != nil {
			err = e
		}
		if i >= 2 { // latency of at most three items per batch
			break
		}
	}
	if err != nil {
		c.herrs.Add(1)
	}
	return err
}

func (c *c37Case) handleOne(ctx context.Context, it c37Item) error {
	return c.handleItems(ctx, []c37Item{it})
}

func (c *c37Case) handleMailbox(ctx context.Context, b workqueue.MailboxBatch[c37Item]) error {
	sh := b.Shard
	if sh < 0 || sh >= c.cfg.Shards {
		c.badShard.Add(1)
		return c.handleItems(ctx, b.Items)
	}
	a := c.active[sh].Add(1)
	c37AtomicMax(&c.maxConcObs, int64(a))
	if a > 1 {
		c.concDrain.Add(1)
		c.concShard.Store(int64(sh))
	}
	defer c.active[sh].Add(-1)
	for _, it := range b.Items {
		if it.Key >= 0 && int(it.Key) < len(c.keyShard) {
			if !c.keyShard[it.Key].CompareAndSwap(-1, int32(sh)) {
				if got := c.keyShard[it.Key].Load(); got != int32(sh) {
					if c.unstable.Add(1) == 1 {
						c.witMu.Lock()
						c.shardWit = map[string]any{"key": it.Key, "shard_first": got, "shard_now": sh, "task": it.ID}
						c.witMu.Unlock()
					}
				}
			}
		}
		if int(it.Prod) >= 0 && int(it.Prod) < c.cfg.Producers {
			c.orderChk.Add(1)
			prev := c.last[int(it.Prod)*c.cfg.Shards+sh].Swap(int64(it.Seq))
			if prev >= int64(it.Seq) {
				if c.orderViol.Add(1) == 1 {
					c.witMu.Lock()
					c.orderWit = map[string]any{"shard": sh, "producer": it.Prod, "seq_prev": prev, "seq_now": it.Seq, "key": it.Key}
					c.witMu.Unlock()
				}
			}
		}
	}
	return c.handleItems(ctx, b.Items)
}

func (c *c37Case) cancelHook(it c37Item, _ error) {
	id := int(it.ID)
	if id < 0 || id >= c.n {
		c.badItem.Add(1)
		return
	}
	if c.closeNil.Load() {
		c.lateHook.Add(1)
	}
	c.cancelled[id].Add(1)
}

func (c *c37Case) build() error {
	cfg := c.cfg
	var obs *c37Obs
	if cfg.Observer > 0 {
		obs = &c37Obs{yield: cfg.Observer == 2}
	}
	rel := time.Duration(cfg.ReleaseMS) * time.Millisecond
	switch cfg.Kind {
	case c37KindPool:
		pc := workqueue.BoundedPoolConfig{Name: "c37-pool", Workers: cfg.Workers, QueueSize: cfg.Queue, ReleaseTimeout: rel}
		if obs != nil {
			pc.Observer = obs
		}
		p, err := workqueue.NewBoundedPool[c37Item](pc, c.handleOne)
		if err != nil {
			return err
		}
		c.q = c37PoolQ{p}
	case c37KindBatch:
		bc := workqueue.BoundedBatchPoolConfig[c37Item]{Name: "c37-batch", Workers: cfg.Workers, QueueSize: cfg.Queue, ReleaseTimeout: rel,
			CancelAcceptedOnClose: cfg.CancelAccepted, CancelRunningOnClose: cfg.CancelRunning}
		if obs != nil {
			bc.Observer = obs
		}
		if cfg.CancelHook {
			bc.CancelAccepted = c.cancelHook
		}
		maxWait := time.Duration(cfg.MaxWaitUS) * time.Microsecond
		switch cfg.PolicyMode {
		case 1:
			bc.Policy = func(c37Item) workqueue.BatchOptions {
				return workqueue.BatchOptions{MaxItems: cfg.MaxItems, MaxWait: maxWait}
			}
		case 2:
			salt := c.salt
			bc.Policy = func(first c37Item) workqueue.BatchOptions {
				h := c37Mix(salt + uint64(uint32(first.ID)))
				o := workqueue.BatchOptions{MaxItems: int(h % uint64(cfg.MaxItems+2))} // 0..MaxItems+1
				if h&(1<<20) != 0 {
					o.MaxWait = maxWait
				}
				return o
			}
		}
		p, err := workqueue.NewBoundedBatchPool[c37Item](bc, c.handleItems)
		if err != nil {
			return err
		}
		c.q = c37BatchQ{p}
	case c37KindWQ:
		p, err := workqueue.NewBoundedWorkerQueue[c37Item](workqueue.BoundedWorkerQueueConfig{Name: "c37-wq", Workers: cfg.Workers, QueueSize: cfg.Queue}, c.handleOne)
		if err != nil {
			return err
		}
		c.q = c37WQ{p}
	case c37KindMailbox:
		mc := workqueue.ShardedMailboxConfig{Name: "c37-mailbox", Shards: cfg.Shards, Workers: cfg.Workers, QueueSizePerShard: cfg.Queue,
			BatchMaxItems: cfg.BatchMaxItems, BatchMaxWait: time.Duration(cfg.BatchMaxWaitUS) * time.Microsecond, ReleaseTimeout: rel}
		if obs != nil {
			mc.Observer = obs
		}
		p, err := workqueue.NewShardedMailbox[c37Item](mc, c.handleMailbox)
		if err != nil {
			return err
		}
		rng := c.r.Rand(uint64(c.idx), 77)
		hashes := make([]uint64, cfg.Keys)
		for i := range hashes {
			switch rng.IntN(6) {
			case 0:
				hashes[i] = uint64(rng.IntN(4)) * uint64(cfg.Shards)
			case 1:
				hashes[i] = ^uint64(0) - uint64(rng.IntN(8))
			case 2:
				hashes[i] = uint64(rng.IntN(cfg.Shards + 1))
			default:
				hashes[i] = rng.Uint64()
			}
		}
		c.q = c37MailboxQ{p: p, hashes: hashes}
	}
	return nil
}

var c37NilCtx context.Context

func (c *c37Case) producer(p int, start <-chan struct{}, wg *sync.WaitGroup) {
	defer wg.Done()
	cfg := c.cfg
	rng := c.r.Rand(uint64(c.idx), 1000+uint64(p))
	style := rng.IntN(4) // 0,1 tight; 2 gosched; 3 occasional sleep
	if cfg.Hammer {
		style = 0
	}
	shared, sharedCancel := context.WithCancel(context.Background())
	defer sharedCancel()
	sharedCancelAt := -1
	if rng.IntN(8) == 0 {
		sharedCancelAt = rng.IntN(cfg.Quota + 1)
	}
	hasWait := cfg.Kind == c37KindPool || cfg.Kind == c37KindWQ
	closedSeen := 0
	<-start
	for s := 0; s < cfg.Quota; s++ {
		id := p*cfg.Quota + s
		it := c37Item{ID: int32(id), Prod: int32(p), Seq: int32(s), Key: int32(rng.IntN(cfg.Keys))}
		wait := hasWait && rng.IntN(100) < cfg.WaitPct
		if s == sharedCancelAt {
			sharedCancel()
		}
		var ctx context.Context
		cancel := func() {}
		switch k := rng.IntN(100); {
		case k < 52:
			ctx = context.Background()
		case k < 55:
			ctx = c37NilCtx
		case k < 62:
			var cf context.CancelFunc
			ctx, cf = context.WithCancel(context.Background())
			cf()
		case k < 88:
			var cf context.CancelFunc
			ctx, cf = context.WithTimeout(context.Background(), time.Duration(10+rng.IntN(2000))*time.Microsecond)
			cancel = cf
		default:
			ctx = shared
		}
		if wait && (ctx == nil || ctx == context.Background()) {
			// Unbounded waits only make a mutated tree hang; a long deadline is
			// an equally legitimate caller context.
			var cf context.CancelFunc
			ctx, cf = context.WithTimeout(context.Background(), 3*time.Second)
			cancel = cf
		}
		pre := c.closeDone.Load()
		err := c.q.submit(ctx, it, wait)
		cancel()
		switch {
		case err == nil:
			c.outcome[id] = c37OutAdmitted
			if pre {
				c.admitAfterClose.Add(1)
				c.admitAfterID.CompareAndSwap(-1, int64(id))
			}
		case errors.Is(err, workqueue.ErrFull):
			c.outcome[id] = c37OutFull
		case errors.Is(err, workqueue.ErrClosed):
			c.outcome[id] = c37OutClosed
			closedSeen++
		case errors.Is(err, context.Canceled), errors.Is(err, context.DeadlineExceeded):
			c.outcome[id] = c37OutCtx
		default:
			c.outcome[id] = c37OutOther
		}
		if k := c.submitReturns.Add(1); cfg.CloseMode == c37CloseAtSubmitK && k == int64(cfg.CloseK) {
			c.fire()
		}
		if closedSeen > 3 {
			return
		}
		switch style {
		case 2:
			runtime.Gosched()
		case 3:
			if rng.IntN(8) == 0 {
				time.Sleep(time.Duration(rng.IntN(120)) * time.Microsecond)
			}
		}
	}
}

type c37Outcome struct {
	closeErr error
	hung     bool
}

// run executes the case; returns false if a watchdog fired (run must stop).
func (c *c37Case) run() bool {
	cfg := c.cfg
	r := c.r
	if cfg.Procs > 0 {
		old := runtime.GOMAXPROCS(cfg.Procs)
		defer runtime.GOMAXPROCS(old)
	}
	if err := c.build(); err != nil {
		r.Count("build_error."+c37KindName[cfg.Kind], 1)
		r.Violation("constructor-rejected-valid-config:"+c37KindName[cfg.Kind], map[string]any{"cfg": cfg.String(), "err": err.Error()})
		return true
	}
	start := make(chan struct{})
	var wg sync.WaitGroup
	wg.Add(cfg.Producers)
	for p := 0; p < cfg.Producers; p++ {
		go c.producer(p, start, &wg)
	}
	joined := make(chan struct{})
	go func() { wg.Wait(); close(joined) }()

	// Snapshot of the ledger taken the instant the primary Close returned nil.
	settledAtClose := make([]int32, c.n)
	var closeErr error
	closerDone := make(chan struct{})
	dblDone := make(chan struct{})
	crng := r.Rand(uint64(c.idx), 55)
	jitterN := crng.IntN(40)
	jitterUS := crng.IntN(200)
	go func() {
		defer close(closerDone)
		fallback := time.NewTimer(3 * time.Second)
		defer fallback.Stop()
		switch cfg.CloseMode {
		case c37CloseImmediately:
			<-start
		case c37CloseAfterJoin:
			<-joined
		default:
			select {
			case <-c.trig:
			case <-joined:
				r.Count("close.trigger_unreached", 1)
			case <-fallback.C:
				r.Count("close.timer_fallback", 1)
			}
		}
		switch cfg.CloseJitter {
		case 1:
			for i := 0; i < jitterN; i++ {
				runtime.Gosched()
			}
		case 2:
			time.Sleep(time.Duration(jitterUS) * time.Microsecond)
		}
		ctx := context.Background()
		if cfg.CloseCtxUS > 0 {
			var cf context.CancelFunc
			ctx, cf = context.WithTimeout(ctx, time.Duration(cfg.CloseCtxUS)*time.Microsecond)
			defer cf()
		}
		if cfg.DoubleClose {
			go func() {
				defer close(dblDone)
				if c.q.close(context.Background()) == nil {
					c.closeNil.Store(true)
				}
			}()
		} else {
			close(dblDone)
		}
		closeErr = c.q.close(ctx)
		if closeErr == nil {
			c.closeNil.Store(true)
			for i := 0; i < c.n; i++ {
				settledAtClose[i] = c.finished[i].Load() + c.cancelled[i].Load()
			}
		}
		c.closeDone.Store(true)
	}()
	close(start)

	wd := time.NewTimer(60 * time.Second)
	defer wd.Stop()
	for _, ch := range []<-chan struct{}{closerDone, dblDone, joined} {
		select {
		case <-ch:
		case <-wd.C:
			closing := "producers"
			select {
			case <-joined:
				closing = "close"
			default:
			}
			r.Inconclusive(fmt.Sprintf("watchdog: %s did not return within 60s; case %d %s", closing, c.idx, cfg.String()))
			r.Count("watchdog."+closing+"."+c37KindName[cfg.Kind], 1)
			return false
		}
	}
	// A second Close after the first returned must be a no-op with the same result.
	_ = c.q.close(context.Background())

	// Grace (non-deciding): give an illegitimate late handler a chance to show.
	for i := 0; i < 20; i++ {
		runtime.Gosched()
	}
	time.Sleep(300 * time.Microsecond)
	c.audit(closeErr, settledAtClose)
	return true
}

func (c *c37Case) audit(closeErr error, settledAtClose []int32) {
	r := c.r
	cfg := c.cfg
	kind := c37KindName[cfg.Kind]
	sigs := map[string]map[string]any{}
	flag := func(sig string, id int, extra map[string]any) {
		w, ok := sigs[sig]
		if !ok {
			w = map[string]any{"case": c.idx, "cfg": cfg.String(), "count": 0, "close_err": fmt.Sprint(closeErr)}
			if id >= 0 {
				w["first_task"] = map[string]any{"id": id, "producer": id / cfg.Quota, "seq": id % cfg.Quota,
					"outcome": c.outcome[id], "started": c.started[id].Load(), "finished": c.finished[id].Load(),
					"cancelled": c.cancelled[id].Load(), "settled_at_close": settledAtClose[id]}
			}
			for k, v := range extra {
				w[k] = v
			}
			sigs[sig] = w
		}
		w["count"] = w["count"].(int) + 1
	}
	// Only the mailbox's control flow depends on a handler panic (its drain
	// unwinds through finishShardDrain); keep the other signatures stable.
	suffix := ""
	if cfg.Kind == c37KindMailbox && c.panics.Load() > 0 {
		suffix = "+panic"
	}
	dropOK := cfg.Kind == c37KindBatch && cfg.CancelAccepted && !cfg.CancelHook // configured to cancel silently
	var nAdm, nFull, nClosed, nCtx, nOther, nRan, nCancelled, nDropped int
	for id := 0; id < c.n; id++ {
		s, cn := c.started[id].Load(), c.cancelled[id].Load()
		out := c.outcome[id]
		if s > 1 {
			flag(kind+":task-ran-twice"+suffix, id, nil)
		}
		if cn > 1 {
			flag(kind+":cancel-hook-ran-twice", id, nil)
		}
		if s >= 1 && cn >= 1 {
			flag(kind+":task-ran-and-cancelled", id, nil)
		}
		if cn >= 1 && !(cfg.Kind == c37KindBatch && cfg.CancelAccepted) {
			flag(kind+":cancel-hook-without-cancel-config", id, nil)
		}
		nRan += int(s)
		nCancelled += int(cn)
		switch out {
		case c37OutAdmitted:
			nAdm++
			if closeErr != nil {
				continue // only at-most-once is promised after a failed Close
			}
			switch {
			case settledAtClose[id] >= 1:
			case s == 0 && cn == 0:
				if dropOK {
					nDropped++
					continue
				}
				sig := kind + ":admitted-never-ran-close-nil" + suffix
				if cfg.Kind == c37KindBatch && cfg.CancelAccepted {
					sig = "batch:cancel-on-close-task-neither-ran-nor-cancelled"
				} else if cfg.Kind == c37KindBatch && cfg.CancelRunning {
					sig = "batch:admitted-dropped-cancel-running-only"
				}
				flag(sig, id, nil)
			default:
				flag(kind+":close-nil-before-admitted-task-settled"+suffix, id, nil)
			}
		case c37OutNone:
			if s > 0 || cn > 0 {
				flag(kind+":unsubmitted-task-ran", id, nil)
			}
		default:
			switch out {
			case c37OutFull:
				nFull++
			case c37OutClosed:
				nClosed++
			case c37OutCtx:
				nCtx++
			default:
				nOther++
			}
			if s > 0 {
				flag(kind+":rejected-task-ran", id, nil)
			}
			if cn > 0 {
				flag(kind+":rejected-task-cancel-hook", id, nil)
			}
		}
	}
	if n := c.lateStart.Load(); n > 0 {
		flag(kind+":handler-started-after-close-nil"+suffix, int(c.lateID.Load()), map[string]any{"late_starts": n})
	}
	if n := c.lateHook.Load(); n > 0 {
		flag(kind+":cancel-hook-after-close-nil", -1, map[string]any{"late_hooks": n})
	}
	if n := c.admitAfterClose.Load(); n > 0 {
		flag(kind+":admitted-after-close-returned", int(c.admitAfterID.Load()), map[string]any{"admits": n})
	}
	if n := c.badItem.Load(); n > 0 {
		flag(kind+":handler-got-unknown-item", -1, map[string]any{"n": n})
	}
	if cfg.Kind == c37KindMailbox {
		if n := c.concDrain.Load(); n > 0 {
			flag("mailbox:concurrent-drain-on-shard"+suffix, -1, map[string]any{"n": n, "shard": c.concShard.Load()})
		}
		c.witMu.Lock()
		if n := c.orderViol.Load(); n > 0 {
			flag("mailbox:shard-order-violated"+suffix, -1, map[string]any{"n": n, "first": c.orderWit})
		}
		if n := c.unstable.Load(); n > 0 {
			flag("mailbox:key-moved-between-shards", -1, map[string]any{"n": n, "first": c.shardWit})
		}
		c.witMu.Unlock()
		if n := c.badShard.Load(); n > 0 {
			flag("mailbox:shard-index-out-of-range", -1, map[string]any{"n": n})
		}
		r.Count("mailbox.order_checks", int(c.orderChk.Load()))
		r.Max("mailbox.max_inflight_per_shard", int(c.maxConcObs.Load()))
	}
	for sig, w := range sigs {
		r.Violation(sig, w)
	}

	r.Eval(c.n)
	pre := kind + "."
	r.Count(pre+"cases", 1)
	r.Count(pre+"calls", nAdm+nFull+nClosed+nCtx+nOther)
	r.Count(pre+"admitted", nAdm)
	r.Count(pre+"rejected.full", nFull)
	r.Count(pre+"rejected.closed", nClosed)
	r.Count(pre+"rejected.ctx", nCtx)
	r.Count(pre+"rejected.other", nOther)
	r.Count(pre+"handler_items", nRan)
	r.Count(pre+"handler_calls", int(c.batches.Load()))
	r.Count(pre+"cancel_hook_items", nCancelled)
	r.Count(pre+"silently_cancelled_items(no hook configured)", nDropped)
	r.Count(pre+"handler_errors", int(c.herrs.Load()))
	r.Count(pre+"handler_panics", int(c.panics.Load()))
	if closeErr == nil {
		r.Count(pre+"close.nil", 1)
	} else {
		r.Count(pre+"close.err", 1)
	}
	r.Max(pre+"max_batch", int(c.maxBatch.Load()))
	r.Max(pre+"max_concurrent_handlers", int(c.maxRun.Load()))
	r.Max("max_tasks_per_case", c.n)

	racedClose := nAdm > 0 && nClosed > 0
	pressure := nAdm > 0 && (nFull > 0 || nCtx > 0)
	if racedClose {
		r.Count(pre+"cases.close_raced_submissions", 1)
	}
	if racedClose || pressure || nCancelled > 0 {
		b := func(v bool) int {
			if v {
				return 1
			}
			return 0
		}
		r.Nontrivial(fmt.Sprintf("%s|w%d|q%d|p%d/%d/%d|ca%d%d%d|s%d|b%d/%d|k%d|P%d|Q%d|h%d|W%d|c%d@%d/%d/%d|d%d|l%d|e%d|x%d|o%d|g%d|out:%d%d%d%d%d%d",
			kind, cfg.Workers, cfg.Queue, cfg.PolicyMode, cfg.MaxItems, b(cfg.MaxWaitUS > 0), b(cfg.CancelAccepted), b(cfg.CancelHook), b(cfg.CancelRunning),
			cfg.Shards, cfg.BatchMaxItems, b(cfg.BatchMaxWaitUS > 0), cfg.Keys, cfg.Producers, cfg.Quota, b(cfg.Hammer), cfg.WaitPct/25,
			cfg.CloseMode, cfg.CloseK, cfg.CloseJitter, b(cfg.CloseCtxUS > 0), b(cfg.DoubleClose), cfg.Lat, b(cfg.ErrPct > 0), b(cfg.PanicPct > 0), cfg.Observer, cfg.Procs,
			b(racedClose), b(nFull > 0), b(nCtx > 0), b(nCancelled > 0), b(closeErr == nil), b(c.panics.Load() > 0)))
	}
	if r.WantSample() && racedClose {
		r.Sample(map[string]any{"case": c.idx, "cfg": cfg.String(), "admitted": nAdm, "full": nFull, "closed": nClosed, "ctx": nCtx,
			"handler_items": nRan, "cancel_hook_items": nCancelled, "close_err": fmt.Sprint(closeErr)})
	}
}

func c37GenCfg(r *verifkit.Run, idx int) c37Cfg {
	rng := r.Rand(uint64(idx), 1)
	small := func() int { // 1 / 1 / small
		switch rng.IntN(4) {
		case 0:
			return 1
		case 1:
			return 1 + rng.IntN(3)
		default:
			return 1 + rng.IntN(16)
		}
	}
	cfg := c37Cfg{Kind: idx % c37NumKinds}
	cfg.Workers = 1 + rng.IntN(8)
	cfg.Queue = small()
	cfg.Keys = 1
	switch cfg.Kind {
	case c37KindBatch:
		cfg.PolicyMode = rng.IntN(3)
		cfg.MaxItems = 1 + rng.IntN(8)
		if rng.IntN(2) == 0 {
			cfg.MaxWaitUS = 1 + rng.IntN(1500)
		}
		cfg.CancelAccepted = rng.IntN(2) == 0
		cfg.CancelHook = cfg.CancelAccepted && rng.IntN(5) != 0
		cfg.CancelRunning = rng.IntN(3) == 0
	case c37KindMailbox:
		cfg.Shards = 1 + rng.IntN(8)
		if rng.IntN(4) == 0 {
			cfg.Shards = 1
		}
		cfg.BatchMaxItems = rng.IntN(9) // 0 → 1
		if rng.IntN(2) == 0 {
			cfg.BatchMaxWaitUS = 1 + rng.IntN(1000)
		}
		cfg.Keys = 1 + rng.IntN(12)
	}
	cfg.Producers = 1 + rng.IntN(32)
	if rng.IntN(3) == 0 {
		cfg.Producers = 1 + rng.IntN(4)
	}
	cfg.Quota = 2 + rng.IntN(60)
	cfg.Hammer = rng.IntN(6) == 0
	if cfg.Hammer {
		cfg.Quota = 400 + rng.IntN(2600)
		if cfg.Producers > 16 {
			cfg.Quota /= 2
		}
	}
	cfg.WaitPct = []int{0, 30, 60, 100}[rng.IntN(4)]
	if cfg.Hammer && rng.IntN(3) != 0 {
		cfg.WaitPct = 0
	}
	total := cfg.Producers * cfg.Quota
	cfg.CloseMode = rng.IntN(c37NumCloseModes)
	if cfg.CloseMode == c37CloseAfterJoin && rng.IntN(2) == 0 {
		cfg.CloseMode = c37CloseAtSubmitK + rng.IntN(3)
	}
	switch cfg.CloseMode {
	case c37CloseAtSubmitK:
		cfg.CloseK = 1 + rng.IntN(total)
	case c37CloseAtStartK, c37CloseAtEndK:
		cfg.CloseK = 1 + rng.IntN(total/4+1)
		if cfg.Hammer {
			cfg.CloseK = 1 + rng.IntN(300)
		}
	}
	cfg.CloseJitter = rng.IntN(3)
	if rng.IntN(7) == 0 {
		cfg.CloseCtxUS = 20 + rng.IntN(3000)
	}
	cfg.DoubleClose = rng.IntN(8) == 0
	cfg.Lat = rng.IntN(4)
	if cfg.Kind == c37KindBatch && (cfg.CancelAccepted || cfg.CancelRunning) && rng.IntN(4) != 0 {
		// Cancellation-on-close only matters with a backlog behind busy workers.
		cfg.Lat = 2 + rng.IntN(2)
		if cfg.CloseMode == c37CloseImmediately {
			cfg.CloseMode = c37CloseAtStartK
			cfg.CloseK = 1 + rng.IntN(cfg.Workers+2)
		}
	}
	if cfg.Hammer && cfg.Lat == 3 {
		cfg.Lat = 2
	}
	if rng.IntN(3) == 0 {
		cfg.ErrPct = 1 + rng.IntN(30)
	}
	// Panics only where recovery is documented: the three ants-backed types
	// route worker panics to the owning catalog task (FLOW.md), and the default
	// task app/detached_workqueue has the "recover" policy. BoundedWorkerQueue
	// runs handlers on plain goroutines with no per-item recovery contract.
	if cfg.Kind != c37KindWQ && rng.IntN(6) == 0 {
		cfg.PanicPct = 1 + rng.IntN(8)
	}
	if cfg.Kind != c37KindWQ {
		cfg.Observer = rng.IntN(3)
	}
	switch rng.IntN(10) {
	case 0:
		cfg.Procs = 2
	case 1:
		cfg.Procs = 3
	case 2:
		cfg.Procs = 4
	case 3:
		cfg.Procs = 8
	}
	if rng.IntN(4) == 0 {
		cfg.ReleaseMS = 1 + rng.IntN(50)
	}
	return cfg
}

func c37NewCase(r *verifkit.Run, idx int, cfg c37Cfg) *c37Case {
	n := cfg.Producers * cfg.Quota
	c := &c37Case{r: r, idx: idx, cfg: cfg, n: n, salt: r.Rand(uint64(idx), 9).Uint64(),
		started: make([]atomic.Int32, n), finished: make([]atomic.Int32, n), cancelled: make([]atomic.Int32, n),
		outcome: make([]int8, n), trig: make(chan struct{})}
	c.lateID.Store(-1)
	c.admitAfterID.Store(-1)
	if cfg.Kind == c37KindMailbox {
		c.active = make([]atomic.Int32, cfg.Shards)
		c.last = make([]atomic.Int64, cfg.Producers*cfg.Shards)
		for i := range c.last {
			c.last[i].Store(-1)
		}
		c.keyShard = make([]atomic.Int32, cfg.Keys)
		for i := range c.keyShard {
			c.keyShard[i].Store(-1)
		}
	}
	return c
}

// c37InvalidConfigs: queue size 0 (and workers 0) are not runnable
// configurations; every constructor must refuse them. Counted as evidence only
// (a refused constructor admits nothing, so the property is vacuous there).
func c37InvalidConfigs(r *verifkit.Run) {
	h1 := func(context.Context, c37Item) error { return nil }
	if p, err := workqueue.NewBoundedPool[c37Item](workqueue.BoundedPoolConfig{Workers: 1, QueueSize: 0}, h1); err != nil && p == nil {
		r.Count("queue0_refused.pool", 1)
	}
	if p, err := workqueue.NewBoundedWorkerQueue[c37Item](workqueue.BoundedWorkerQueueConfig{Workers: 1, QueueSize: 0}, h1); err != nil && p == nil {
		r.Count("queue0_refused.wq", 1)
	}
	if p, err := workqueue.NewBoundedBatchPool[c37Item](workqueue.BoundedBatchPoolConfig[c37Item]{Workers: 1, QueueSize: 0}, func(context.Context, []c37Item) error { return nil }); err != nil && p == nil {
		r.Count("queue0_refused.batch", 1)
	}
	if p, err := workqueue.NewShardedMailbox[c37Item](workqueue.ShardedMailboxConfig{Shards: 1, Workers: 1, QueueSizePerShard: 0}, func(context.Context, workqueue.MailboxBatch[c37Item]) error { return nil }); err != nil && p == nil {
		r.Count("queue0_refused.mailbox", 1)
	}
}

func TestVerifC37(t *testing.T) {
	r := verifkit.Start(t, "C37", "main")
	defer r.Finish()
	r.SetRule("Case i = PRNG(seed,i) configuration of one real workqueue type (i mod 4: BoundedPool, BoundedBatchPool, BoundedWorkerQueue, ShardedMailbox): workers 1-8, queue 1..16, batch policy nil/fixed/per-item, CancelAcceptedOnClose/hook/CancelRunningOnClose, shards 1-8; 1-32 producers each making 2-3000 Submit/SubmitWait calls (fresh task id per call) with background/nil/pre-cancelled/timeout/shared-cancelled contexts; handlers with yields/spins/sleeps/errors/panics(ants-backed types only); Close fired at a logical instant (after join, K-th submit return, K-th handler start/end, immediately) with PRNG jitter, background or short-deadline close ctx, optional concurrent second Close, optional GOMAXPROCS 2-8 and yielding observer. Evaluation = one task id audited in the ledger. Non-trivial = case with at least one admitted task AND (an ErrClosed rejection, i.e. Close raced live submissions, or ErrFull/ctx rejections, or cancel-hook deliveries); distinct by (configuration shape, outcome classes).")
	r.Assume("Schedules are whatever the Go runtime and the loaded host produce; the same seed fixes configurations and per-task behaviour, not interleavings.")
	r.Assume("Handler panics are injected only into ants-backed types under the default app/detached_workqueue task (PanicPolicyRecover); a panicking handler call counts as 'ran'.")
	r.Assume("With CancelAcceptedOnClose and no CancelAccepted hook, an admitted task that never ran is the configured silent cancellation (counted, not flagged).")

	c37InvalidConfigs(r)
	n := r.N(640, 9000)
	for i := 0; i < n; i++ {
		if r.Skip(i) {
			continue
		}
		cfg := c37GenCfg(r, i)
		r.BeginCase(i, cfg.String())
		c := c37NewCase(r, i, cfg)
		if !c.run() {
			break // a watchdog fired: leaked goroutines would disturb later cases
		}
	}
}
