//go:build verif

package c38_test

import (
	"bytes"
	"context"
	"crypto/sha256"
	"encoding/hex"
	"encoding/json"
	"errors"
	"fmt"
	"io"
	"math/rand/v2"
	"reflect"
	"runtime/debug"
	"strings"
	"sync"
	"sync/atomic"
	"testing"

	rtbackup "github.com/WuKongIM/WuKongIM/internal/runtime/backup"
	"github.com/WuKongIM/WuKongIM/pkg/backup"
	"github.com/WuKongIM/WuKongIM/pkg/verifkit"
)

// ---------------------------------------------------------------------------
// Archive generator: every object is written by the repository's own code
// (runtime FullExporter / FullStreamWriter / EncodeChunk / Marshal* /
// PublishArchive); the harness only chooses shapes and payloads.

type c38Stream struct {
	kind    backup.ChunkKind
	payload []byte
	records uint64
	maxID   uint64
}

type c38Index struct {
	key  string // relative to backups/<id>/
	sha  string
	body []byte
}

type c38Slot struct {
	hashSlot    uint16
	shape       string // min | exporter | attempt | hand
	legacy      bool   // manifest at slots/NNN/manifest.json (LoadStoredSlot applies)
	manifestKey string // relative
	manifest    backup.SlotManifest
	body        []byte
	ref         backup.SlotReference
	chunkKeys   []string // full keys, manifest order
	indexes     []c38Index
	maxParts    int
}

// c38Foreign is the canonical manifest + COMPLETE marker of another archive.
type c38Foreign struct {
	id                       string
	manifestBody, markerBody []byte
}

type c38Archive struct {
	id           string
	store        *c38Store
	slots        []*c38Slot
	req          rtbackup.PublishArchiveRequest
	manifest     backup.ArchiveManifest
	manifestBody []byte
	markerBody   []byte
	rich         []int
}

func (a *c38Archive) root() string { return "backups/" + a.id + "/" }

type c38Source struct {
	cut     backup.SlotCut
	streams []c38Stream
}

type c38Capture struct {
	src *c38Source
	i   int
}

func (s *c38Source) OpenFullSlot(context.Context, uint16) (rtbackup.FullSlotCapture, error) {
	return &c38Capture{src: s}, nil
}
func (c *c38Capture) Cut() backup.SlotCut { return c.src.cut }
func (c *c38Capture) Close() error        { return nil }
func (c *c38Capture) Next(context.Context) (rtbackup.FullSlotStream, error) {
	if c.i >= len(c.src.streams) {
		return rtbackup.FullSlotStream{}, io.EOF
	}
	st := c.src.streams[c.i]
	c.i++
	return rtbackup.FullSlotStream{Kind: st.kind, Reader: io.NopCloser(bytes.NewReader(st.payload)),
		Records: st.records, MaxMessageID: st.maxID}, nil
}

func c38Payload(rng *rand.Rand, maxLen int) []byte {
	var n int
	switch rng.IntN(6) {
	case 0:
		n = 1
	case 1:
		n = 1 + rng.IntN(16)
	case 2, 3:
		n = 1 + rng.IntN(512)
	default:
		n = 1 + rng.IntN(maxLen)
	}
	b := make([]byte, n)
	switch rng.IntN(3) {
	case 0:
		for i := range b {
			b[i] = byte(rng.UintN(256))
		}
	case 1:
		pat := make([]byte, 1+rng.IntN(7))
		for i := range pat {
			pat[i] = byte(rng.UintN(256))
		}
		for i := range b {
			b[i] = pat[i%len(pat)]
		}
	default:
		for k := 0; k < 1+n/64; k++ {
			b[rng.IntN(n)] = byte(rng.UintN(256))
		}
	}
	return b
}

func c38U64(rng *rand.Rand) uint64 {
	switch rng.IntN(4) {
	case 0:
		return uint64(rng.IntN(100))
	case 1:
		return rng.Uint64()
	default:
		return uint64(rng.IntN(1 << 30))
	}
}

func c38Streams(rng *rand.Rand, nMsg, maxLen int) []c38Stream {
	out := []c38Stream{{kind: backup.ChunkKindMetadata, payload: c38Payload(rng, maxLen), records: uint64(rng.IntN(50))}}
	for i := 0; i < nMsg; i++ {
		out = append(out, c38Stream{kind: backup.ChunkKindMessages, payload: c38Payload(rng, maxLen),
			records: uint64(rng.IntN(1000)), maxID: c38U64(rng)})
	}
	return out
}

func c38Sha(b []byte) string { s := sha256.Sum256(b); return hex.EncodeToString(s[:]) }

var c38Ctx = context.Background()

// c38BuildSlot writes one Hash Slot's artifacts and returns its description.
func c38BuildSlot(rng *rand.Rand, a *c38Archive, hs uint16, shape string, tmp string, started, completed int64) (*c38Slot, error) {
	cut := backup.SlotCut{
		PhysicalSlotID: 1 + uint32(rng.IntN(16)), LeaderTerm: 1 + uint64(rng.IntN(9)),
		AppliedTerm: 1 + uint64(rng.IntN(9)), ConfigurationVersion: 1 + uint64(rng.IntN(5)),
		AppliedIndex: 1 + uint64(rng.IntN(1<<20)), CapturedAtUnixMillis: started + rng.Int64N(completed-started+1),
	}
	sl := &c38Slot{hashSlot: hs, shape: shape, maxParts: 1}
	st := a.store
	switch shape {
	case "min", "exporter":
		nMsg := 0
		maxLen := 64
		if shape == "exporter" {
			nMsg = rng.IntN(4)
			maxLen = 8 << 10
		}
		src := &c38Source{cut: cut, streams: c38Streams(rng, nMsg, maxLen)}
		exp, err := rtbackup.NewFullExporter(rtbackup.FullExporterOptions{Store: st, Source: src, TempDir: tmp})
		if err != nil {
			return nil, err
		}
		ref, err := exp.ExportSlot(c38Ctx, a.id, hs)
		if err != nil {
			return nil, fmt.Errorf("ExportSlot: %w", err)
		}
		sl.ref, sl.legacy, sl.manifestKey = ref, true, ref.ManifestKey
	case "attempt", "hand":
		prefix := fmt.Sprintf("slots/%03d", hs)
		if shape == "attempt" || rng.IntN(2) == 0 {
			prefix = fmt.Sprintf("slots/%03d/attempts/%08d-%020d-%020d", hs, 1+rng.IntN(3), cut.LeaderTerm, 1+rng.IntN(7))
		} else {
			sl.legacy = true
		}
		streams := c38Streams(rng, rng.IntN(4), 8<<10)
		var chunks []backup.ChunkReference
		nextSeq := map[backup.ChunkKind]uint32{backup.ChunkKindMetadata: 1, backup.ChunkKindMessages: 1}
		nextStream := map[backup.ChunkKind]uint32{backup.ChunkKindMetadata: 0, backup.ChunkKindMessages: 1}
		writer, err := rtbackup.NewFullStreamWriter(rtbackup.FullStreamWriterOptions{Store: st, TempDir: tmp})
		if err != nil {
			return nil, err
		}
		for _, s := range streams {
			var refs []backup.ChunkReference
			if shape == "attempt" {
				refs, err = writer.WriteAt(c38Ctx, a.id, hs, prefix, rtbackup.FullSlotStream{Kind: s.kind,
					Reader: io.NopCloser(bytes.NewReader(s.payload)), Records: s.records, MaxMessageID: s.maxID},
					nextSeq[s.kind], nextStream[s.kind])
				if err != nil {
					return nil, fmt.Errorf("WriteAt: %w", err)
				}
			} else {
				// hand: the stream is split into several small parts, each
				// encoded by the real EncodeChunk (the runtime writer only
				// splits at 64 MiB, the format allows any part size).
				parts := 1 + rng.IntN(3)
				if parts > len(s.payload) {
					parts = len(s.payload)
				}
				if parts > sl.maxParts {
					sl.maxParts = parts
				}
				cuts := []int{0}
				for p := 1; p < parts; p++ {
					lo := cuts[p-1] + 1
					hi := len(s.payload) - (parts - p)
					cuts = append(cuts, lo+rng.IntN(hi-lo+1))
				}
				cuts = append(cuts, len(s.payload))
				name := "meta"
				if s.kind == backup.ChunkKindMessages {
					name = "messages"
				}
				for p := 0; p < parts; p++ {
					var enc bytes.Buffer
					desc, err := backup.EncodeChunk(&enc, bytes.NewReader(s.payload[cuts[p]:cuts[p+1]]))
					if err != nil {
						return nil, fmt.Errorf("EncodeChunk: %w", err)
					}
					seq := nextSeq[s.kind] + uint32(p)
					key := fmt.Sprintf("%s/%s-%06d.zst", prefix, name, seq)
					if err := st.Put(c38Ctx, backup.PutObject{Key: a.root() + key, Body: bytes.NewReader(enc.Bytes()),
						ExpectedBytes: desc.StoredBytes, IfAbsent: true}); err != nil {
						return nil, err
					}
					ref := backup.ChunkReference{Kind: s.kind, Sequence: seq, Stream: nextStream[s.kind], Part: uint32(p + 1),
						Final: p == parts-1, Key: key, Descriptor: desc}
					if p == 0 {
						ref.Records, ref.MaxMessageID = s.records, s.maxID
					}
					refs = append(refs, ref)
				}
			}
			if s.kind == backup.ChunkKindMessages {
				idx, err := backup.NewMessageChunkManifest(hs, refs)
				if err != nil {
					return nil, fmt.Errorf("NewMessageChunkManifest: %w", err)
				}
				body, err := backup.MarshalMessageChunkManifest(idx)
				if err != nil {
					return nil, err
				}
				key := fmt.Sprintf("%s/message-stream-%06d-manifest.json", prefix, nextStream[s.kind])
				if err := st.Put(c38Ctx, backup.PutObject{Key: a.root() + key, Body: bytes.NewReader(body),
					ExpectedBytes: uint64(len(body)), IfAbsent: true}); err != nil {
					return nil, err
				}
				sl.indexes = append(sl.indexes, c38Index{key: key, sha: c38Sha(body), body: body})
			}
			chunks = append(chunks, refs...)
			nextSeq[s.kind] += uint32(len(refs))
			nextStream[s.kind]++
		}
		m := backup.SlotManifest{Format: backup.SlotManifestFormat, Version: backup.SlotManifestVersion, HashSlot: hs, Cut: cut, Chunks: chunks}
		for _, c := range chunks {
			m.LogicalBytes += c.Descriptor.LogicalBytes
			m.StoredBytes += c.Descriptor.StoredBytes
			m.Records += c.Records
			if c.MaxMessageID > m.MaxMessageID {
				m.MaxMessageID = c.MaxMessageID
			}
		}
		body, err := backup.MarshalSlotManifest(m)
		if err != nil {
			return nil, fmt.Errorf("MarshalSlotManifest: %w", err)
		}
		sl.manifestKey = prefix + "/manifest.json"
		if err := st.Put(c38Ctx, backup.PutObject{Key: a.root() + sl.manifestKey, Body: bytes.NewReader(body),
			ExpectedBytes: uint64(len(body)), IfAbsent: true}); err != nil {
			return nil, err
		}
		sl.ref = backup.SlotReference{HashSlot: hs, ManifestKey: sl.manifestKey, ManifestSHA256: c38Sha(body),
			LogicalBytes: m.LogicalBytes, StoredBytes: m.StoredBytes, Records: m.Records, MaxMessageID: m.MaxMessageID}
	default:
		return nil, fmt.Errorf("unknown shape %q", shape)
	}
	body, ok := st.get(a.root() + sl.manifestKey)
	if !ok {
		return nil, fmt.Errorf("slot manifest %s not stored", sl.manifestKey)
	}
	sl.body = body
	m, err := backup.LoadSlotManifest(body)
	if err != nil {
		return nil, fmt.Errorf("LoadSlotManifest(own output): %w", err)
	}
	sl.manifest = m
	for _, c := range m.Chunks {
		sl.chunkKeys = append(sl.chunkKeys, a.root()+c.Key)
	}
	return sl, nil
}

func c38BuildArchive(rng *rand.Rand, idx int, tmp string, nRich int) (*c38Archive, error) {
	a := &c38Archive{id: fmt.Sprintf("bk_%04d_%08x", idx, rng.Uint32()), store: c38NewStore()}
	started := int64(1_700_000_000_000) + rng.Int64N(1<<36)
	completed := started + 1 + rng.Int64N(3_600_000)
	rich := map[int]string{}
	richShapes := []string{"exporter", "attempt", "hand", "hand"}
	// the first and last Hash Slot are always rich (ends of the verification order)
	rich[0] = richShapes[rng.IntN(len(richShapes))]
	rich[backup.DefaultHashSlotCount-1] = richShapes[rng.IntN(len(richShapes))]
	for len(rich) < nRich {
		// biased to low indices: verification stops at the first bad slot, so
		// late slots cost a full pass per mutation (slot 255 always pays it).
		hs := rng.IntN(backup.DefaultHashSlotCount)
		if rng.IntN(3) != 0 {
			hs = rng.IntN(48)
		}
		rich[hs] = richShapes[rng.IntN(len(richShapes))]
	}
	refs := make([]backup.SlotReference, backup.DefaultHashSlotCount)
	for hs := 0; hs < backup.DefaultHashSlotCount; hs++ {
		shape := "min"
		if s, ok := rich[hs]; ok {
			shape = s
			a.rich = append(a.rich, hs)
		}
		sl, err := c38BuildSlot(rng, a, uint16(hs), shape, tmp, started, completed)
		if err != nil {
			return nil, fmt.Errorf("slot %d (%s): %w", hs, shape, err)
		}
		a.slots = append(a.slots, sl)
		refs[hs] = sl.ref
	}
	triggers := []backup.Trigger{backup.TriggerInitial, backup.TriggerScheduled, backup.TriggerManual}
	a.req = rtbackup.PublishArchiveRequest{ID: a.id, Trigger: triggers[rng.IntN(3)],
		SourceClusterID: fmt.Sprintf("cluster-%d", rng.IntN(100)), SourceApplication: "wukongim-verif",
		StartedUnixMillis: started, CompletedUnixMillis: completed, Slots: refs}
	m, err := rtbackup.PublishArchive(c38Ctx, a.store, a.req)
	if err != nil {
		return nil, fmt.Errorf("PublishArchive: %w", err)
	}
	a.manifest = m
	var ok bool
	if a.manifestBody, ok = a.store.get(a.root() + "manifest.json"); !ok {
		return nil, errors.New("manifest.json not stored by PublishArchive")
	}
	if a.markerBody, ok = a.store.get(a.root() + "COMPLETE"); !ok {
		return nil, errors.New("COMPLETE not stored by PublishArchive")
	}
	return a, nil
}

// ---------------------------------------------------------------------------
// Clean-archive oracle: verifies and reproduces every manifest byte for byte.

func c38CheckClean(r *verifkit.Run, a *c38Archive, full bool) {
	got, err := backup.VerifyPublishedArchive(c38Ctx, a.store, a.id)
	if err != nil {
		r.Violation("clean-archive-rejected:verify", map[string]any{"archive": a.id, "err": err.Error()})
		return
	}
	if !reflect.DeepEqual(got, a.manifest) {
		r.Violation("clean-archive-manifest-differs:verify", map[string]any{"archive": a.id})
	}
	if body, err := backup.MarshalArchiveManifest(got); err != nil || !bytes.Equal(body, a.manifestBody) {
		r.Violation("manifest-not-reproduced:archive", map[string]any{"archive": a.id, "err": fmt.Sprint(err)})
	}
	r.Count("clean.verify_ok", 1)
	if !full {
		return
	}
	meta, err := backup.LoadPublishedArchiveMetadata(c38Ctx, a.store, a.id)
	if err != nil {
		r.Violation("clean-archive-rejected:metadata", map[string]any{"archive": a.id, "err": err.Error()})
	} else if body, err := backup.MarshalArchiveManifest(meta); err != nil || !bytes.Equal(body, a.manifestBody) {
		r.Violation("manifest-not-reproduced:metadata", map[string]any{"archive": a.id, "err": fmt.Sprint(err)})
	}
	marker, err := backup.LoadCompleteMarker(a.markerBody, a.manifestBody)
	if err != nil {
		r.Violation("clean-archive-rejected:marker", map[string]any{"archive": a.id, "err": err.Error()})
	} else if body, err := backup.MarshalCompleteMarker(marker); err != nil || !bytes.Equal(body, a.markerBody) {
		r.Violation("manifest-not-reproduced:marker", map[string]any{"archive": a.id, "err": fmt.Sprint(err)})
	}
	for _, sl := range a.slots {
		if why := c38SlotLoads(a, sl); why != "" {
			r.Violation("clean-slot-rejected:"+sl.shape, map[string]any{"archive": a.id, "slot": sl.hashSlot, "why": why})
		}
		r.Count("clean.slot_ok", 1)
		if got.Slots[sl.hashSlot] != sl.ref {
			r.Violation("clean-slot-reference-differs", map[string]any{"archive": a.id, "slot": sl.hashSlot})
		}
		for _, ix := range sl.indexes {
			m, err := backup.LoadStoredMessageChunkManifest(c38Ctx, a.store, a.id, ix.key, ix.sha)
			if err != nil {
				r.Violation("clean-index-rejected", map[string]any{"archive": a.id, "key": ix.key, "err": err.Error()})
				continue
			}
			if body, err := backup.MarshalMessageChunkManifest(m); err != nil || !bytes.Equal(body, ix.body) {
				r.Violation("manifest-not-reproduced:index", map[string]any{"archive": a.id, "key": ix.key})
			}
			r.Count("clean.index_ok", 1)
		}
	}
}

// c38SlotLoads loads one slot with chunk verification through the public
// loader that applies to its layout and checks that reference and manifest are
// reproduced exactly. "" = ok, otherwise the reason.
func c38SlotLoads(a *c38Archive, sl *c38Slot) string {
	var ref backup.SlotReference
	var m backup.SlotManifest
	var err error
	if sl.legacy {
		ref, m, err = backup.LoadStoredSlot(c38Ctx, a.store, a.id, sl.hashSlot, true)
	} else {
		ref, m, err = backup.LoadStoredSlotReference(c38Ctx, a.store, a.id, sl.ref, true)
	}
	if err != nil {
		return "error: " + err.Error()
	}
	if ref != sl.ref {
		return fmt.Sprintf("reference differs: %+v vs %+v", ref, sl.ref)
	}
	body, err := backup.MarshalSlotManifest(m)
	if err != nil || !bytes.Equal(body, sl.body) {
		return "manifest not reproduced byte-for-byte"
	}
	return ""
}

// ---------------------------------------------------------------------------
// Mutations.

type c38Mut struct {
	class string // mutation class
	kind  string // object kind
	key   string // primary object (full key) – witness only
	slot  int    // affected Hash Slot, -1 = top level only
	// metaFail: LoadPublishedArchiveMetadata must reject too.
	metaFail bool
	// slotFail: loading the affected slot (with chunk verification) must reject.
	slotFail bool
	// indexOnly: object is not covered by archive verification (message index);
	// only its digest-bound loader must reject.
	index  *c38Index
	detail string
	pos    string
	apply  func() bool
}

func c38ErrClass(err error) string {
	switch {
	case err == nil:
		return "nil"
	case errors.Is(err, backup.ErrObjectCorrupt):
		return "corrupt"
	case errors.Is(err, backup.ErrInvalidManifest):
		return "invalid_manifest"
	case errors.Is(err, backup.ErrUnsupportedVersion):
		return "unsupported_version"
	case errors.Is(err, backup.ErrObjectNotFound):
		return "not_found"
	case errors.Is(err, backup.ErrInvalidObject):
		return "invalid_object"
	}
	return "other"
}

// c38ByteMuts returns the single-object byte-level mutation classes for key.
func c38ByteMuts(rng *rand.Rand, a *c38Archive, key, kind string, slot int, peers []string, nFlips int) []c38Mut {
	st := a.store
	orig, _ := st.get(key)
	n := len(orig)
	mk := func(class, detail string, apply func() bool) c38Mut {
		return c38Mut{class: class, kind: kind, key: key, slot: slot, detail: detail, apply: apply}
	}
	var out []c38Mut
	offs := []int{0, n - 1}
	for i := 0; i < nFlips; i++ {
		offs = append(offs, rng.IntN(n))
	}
	for _, off := range offs {
		off, bit := off, byte(1)<<rng.UintN(8)
		out = append(out, mk("bitflip", fmt.Sprintf("off=%d/%d bit=%#x", off, n, bit), func() bool {
			b := append([]byte(nil), orig...)
			b[off] ^= bit
			st.setOver(key, b)
			return true
		}))
	}
	for _, l := range c38Uniq(n-1, n/2, 0, rng.IntN(n)) {
		l := l
		if l == n {
			continue
		}
		out = append(out, mk("truncate", fmt.Sprintf("len=%d/%d", l, n), func() bool {
			st.setOver(key, append([]byte(nil), orig[:l]...))
			return true
		}))
	}
	extra := make([]byte, 1+rng.IntN(32))
	for i := range extra {
		extra[i] = byte(rng.UintN(256))
	}
	exts := [][]byte{{0}, extra, orig, []byte("\n"), []byte(" ")}
	rng.Shuffle(len(exts), func(i, j int) { exts[i], exts[j] = exts[j], exts[i] })
	for _, ext := range exts[:3] {
		ext := ext
		out = append(out, mk("extend", fmt.Sprintf("+%d", len(ext)), func() bool {
			st.setOver(key, append(append([]byte(nil), orig...), ext...))
			return true
		}))
	}
	out = append(out, mk("missing", "", func() bool { st.delOver(key); return true }))
	out = append(out, mk("size-report", "+1", func() bool { st.lieOver(key, uint64(n)+1); return true }))
	if n > 1 {
		out = append(out, mk("size-report", "-1", func() bool { st.lieOver(key, uint64(n)-1); return true }))
	}
	for _, p := range peers {
		p := p
		if p == key {
			continue
		}
		out = append(out, mk("swap", "with "+strings.TrimPrefix(p, a.root()), func() bool {
			other, ok := st.get(p)
			if !ok || bytes.Equal(other, orig) {
				return false // identical bodies: the archive is unchanged
			}
			st.setOver(key, other)
			st.setOver(p, orig)
			return true
		}))
		out = append(out, mk("replace", "by "+strings.TrimPrefix(p, a.root()), func() bool {
			other, ok := st.get(p)
			if !ok || bytes.Equal(other, orig) {
				return false
			}
			st.setOver(key, other)
			return true
		}))
	}
	return out
}

// c38Resign rewrites manifest.json and COMPLETE so that they are mutually
// consistent again (what an attacker, or a buggy producer, with write access
// would do). Uses plain json.Marshal: no validation on the forging side.
func c38Resign(a *c38Archive, m backup.ArchiveManifest) {
	body, _ := json.Marshal(m)
	a.store.setOver(a.root()+"manifest.json", body)
	marker, _ := json.Marshal(backup.CompleteMarker{Format: backup.CompleteMarkerFormat, Version: backup.CompleteMarkerVersion,
		ManifestSHA256: c38Sha(body), ManifestBytes: uint64(len(body))})
	a.store.setOver(a.root()+"COMPLETE", marker)
}

func c38CloneArchiveManifest(m backup.ArchiveManifest) backup.ArchiveManifest {
	m.Slots = append([]backup.SlotReference(nil), m.Slots...)
	return m
}

func c38Retotal(m *backup.ArchiveManifest) {
	m.LogicalBytes, m.StoredBytes, m.Records, m.MaxMessageID = 0, 0, 0, 0
	for _, s := range m.Slots {
		m.LogicalBytes += s.LogicalBytes
		m.StoredBytes += s.StoredBytes
		m.Records += s.Records
		if s.MaxMessageID > m.MaxMessageID {
			m.MaxMessageID = s.MaxMessageID
		}
	}
}

// c38ResignSlot stores a forged Slot manifest and re-signs the whole chain
// above it (Slot reference digest and totals, archive totals, COMPLETE).
func c38ResignSlot(a *c38Archive, sl *c38Slot, sm backup.SlotManifest, retotalSlot bool) {
	if retotalSlot {
		sm.LogicalBytes, sm.StoredBytes, sm.Records, sm.MaxMessageID = 0, 0, 0, 0
		for _, c := range sm.Chunks {
			sm.LogicalBytes += c.Descriptor.LogicalBytes
			sm.StoredBytes += c.Descriptor.StoredBytes
			sm.Records += c.Records
			if c.MaxMessageID > sm.MaxMessageID {
				sm.MaxMessageID = c.MaxMessageID
			}
		}
	}
	body, _ := json.Marshal(sm)
	a.store.setOver(a.root()+sl.manifestKey, body)
	am := c38CloneArchiveManifest(a.manifest)
	am.Slots[sl.hashSlot] = backup.SlotReference{HashSlot: sl.hashSlot, ManifestKey: sl.manifestKey, ManifestSHA256: c38Sha(body),
		LogicalBytes: sm.LogicalBytes, StoredBytes: sm.StoredBytes, Records: sm.Records, MaxMessageID: sm.MaxMessageID}
	c38Retotal(&am)
	c38Resign(a, am)
}

func c38FlipHex(rng *rand.Rand, s string) string {
	b := []byte(s)
	i := rng.IntN(len(b))
	const hexd = "0123456789abcdef"
	for {
		c := hexd[rng.IntN(16)]
		if c != b[i] {
			b[i] = c
			return string(b)
		}
	}
}

func c38CloneSlotManifest(m backup.SlotManifest) backup.SlotManifest {
	m.Chunks = append([]backup.ChunkReference(nil), m.Chunks...)
	return m
}

// c38ResignedSlotMuts: forged-but-re-signed Slot manifests whose only defect
// is an intrinsic inconsistency (descriptor vs. stored chunk, ordering,
// totals). Every digest above the edit is recomputed, so only the semantic
// checks of verification can detect them.
func c38ResignedSlotMuts(rng *rand.Rand, a *c38Archive, sl *c38Slot) []c38Mut {
	var out []c38Mut
	nC := len(sl.manifest.Chunks)
	mk := func(class, detail, pos string, edit func(m *backup.SlotManifest) (ok, retotal bool)) {
		out = append(out, c38Mut{class: "resigned-" + class, kind: "slot-manifest", key: a.root() + sl.manifestKey,
			slot: int(sl.hashSlot), detail: detail, pos: pos, metaFail: false, slotFail: true, apply: func() bool {
				m := c38CloneSlotManifest(sl.manifest)
				ok, retotal := edit(&m)
				if !ok {
					return false
				}
				c38ResignSlot(a, sl, m, retotal)
				return true
			}})
	}
	for _, i := range c38Uniq(nC-1, 0, rng.IntN(nC)) {
		i := i
		pos := c38Pos(i, nC)
		for _, d := range []int64{+1, -1} {
			d := d
			mk("stored-bytes", fmt.Sprintf("chunk[%d]%+d", i, d), pos, func(m *backup.SlotManifest) (bool, bool) {
				m.Chunks[i].Descriptor.StoredBytes = uint64(int64(m.Chunks[i].Descriptor.StoredBytes) + d)
				return true, true
			})
			mk("logical-bytes", fmt.Sprintf("chunk[%d]%+d", i, d), pos, func(m *backup.SlotManifest) (bool, bool) {
				if d < 0 && m.Chunks[i].Descriptor.LogicalBytes == 0 {
					return false, false
				}
				m.Chunks[i].Descriptor.LogicalBytes = uint64(int64(m.Chunks[i].Descriptor.LogicalBytes) + d)
				return true, true
			})
		}
		mk("stored-sha", fmt.Sprintf("chunk[%d]", i), pos, func(m *backup.SlotManifest) (bool, bool) {
			m.Chunks[i].Descriptor.StoredSHA256 = c38FlipHex(rng, m.Chunks[i].Descriptor.StoredSHA256)
			return true, false
		})
		mk("logical-sha", fmt.Sprintf("chunk[%d]", i), pos, func(m *backup.SlotManifest) (bool, bool) {
			m.Chunks[i].Descriptor.LogicalSHA256 = c38FlipHex(rng, m.Chunks[i].Descriptor.LogicalSHA256)
			return true, false
		})
	}
	if nC >= 2 {
		i := rng.IntN(nC)
		j := (i + 1 + rng.IntN(nC-1)) % nC
		pos := c38Pos(i, nC) + "+" + c38Pos(j, nC)
		mk("swap-refs", fmt.Sprintf("chunk[%d]<->chunk[%d]", i, j), pos, func(m *backup.SlotManifest) (bool, bool) {
			m.Chunks[i], m.Chunks[j] = m.Chunks[j], m.Chunks[i]
			return true, false
		})
		mk("swap-descriptors", fmt.Sprintf("chunk[%d]<->chunk[%d]", i, j), pos, func(m *backup.SlotManifest) (bool, bool) {
			if m.Chunks[i].Descriptor == m.Chunks[j].Descriptor {
				return false, false
			}
			m.Chunks[i].Descriptor, m.Chunks[j].Descriptor = m.Chunks[j].Descriptor, m.Chunks[i].Descriptor
			return true, false
		})
		mk("swap-keys", fmt.Sprintf("chunk[%d]<->chunk[%d]", i, j), pos, func(m *backup.SlotManifest) (bool, bool) {
			m.Chunks[i].Key, m.Chunks[j].Key = m.Chunks[j].Key, m.Chunks[i].Key
			return true, false
		})
		// adjacent pair (last two): order of the final chunks
		mk("swap-refs", fmt.Sprintf("chunk[%d]<->chunk[%d]", nC-2, nC-1), "last2", func(m *backup.SlotManifest) (bool, bool) {
			m.Chunks[nC-2], m.Chunks[nC-1] = m.Chunks[nC-1], m.Chunks[nC-2]
			return true, false
		})
		mk("duplicate-ref", fmt.Sprintf("chunk[%d] twice", i), c38Pos(i, nC), func(m *backup.SlotManifest) (bool, bool) {
			dup := m.Chunks[i]
			m.Chunks = append(m.Chunks[:i+1:i+1], append([]backup.ChunkReference{dup}, m.Chunks[i+1:]...)...)
			return true, true
		})
	}
	mk("slot-total", "logical_bytes+1", "total", func(m *backup.SlotManifest) (bool, bool) { m.LogicalBytes++; return true, false })
	mk("slot-total", "stored_bytes+1", "total", func(m *backup.SlotManifest) (bool, bool) { m.StoredBytes++; return true, false })
	mk("slot-total", "records+1", "total", func(m *backup.SlotManifest) (bool, bool) { m.Records++; return true, false })
	mk("unterminated", "last chunk final=false", "last", func(m *backup.SlotManifest) (bool, bool) {
		m.Chunks[nC-1].Final = false
		return true, false
	})
	mk("hash-slot", "hash_slot edited", "id", func(m *backup.SlotManifest) (bool, bool) {
		m.HashSlot = uint16((int(m.HashSlot) + 1 + rng.IntN(255)) % 256)
		return true, false
	})
	mk("sequence-gap", "last chunk sequence+1", "last", func(m *backup.SlotManifest) (bool, bool) {
		m.Chunks[nC-1].Sequence++
		return true, false
	})
	return out
}

// c38Uniq returns its arguments without duplicates, order preserved.
func c38Uniq(v ...int) []int {
	var out []int
	for _, x := range v {
		dup := false
		for _, y := range out {
			dup = dup || x == y
		}
		if !dup {
			out = append(out, x)
		}
	}
	return out
}

func c38Pos(i, n int) string {
	switch {
	case i == n-1 && i == 0:
		return "only"
	case i == n-1:
		return "last"
	case i == 0:
		return "first"
	}
	return "mid"
}

// c38ResignedArchiveMuts: forged top-level manifests, COMPLETE re-signed.
func c38ResignedArchiveMuts(rng *rand.Rand, a *c38Archive, prev *c38Foreign) []c38Mut {
	var out []c38Mut
	root := a.root()
	mk := func(class, detail string, metaFail bool, slot int, edit func(m *backup.ArchiveManifest) bool) {
		out = append(out, c38Mut{class: "resigned-" + class, kind: "archive-manifest", key: root + "manifest.json",
			slot: slot, detail: detail, metaFail: metaFail, apply: func() bool {
				m := c38CloneArchiveManifest(a.manifest)
				if !edit(&m) {
					return false
				}
				c38Resign(a, m)
				return true
			}})
	}
	pairs := [][2]int{{0, 255}, {254, 255}, {0, 1}}
	i := rng.IntN(256)
	pairs = append(pairs, [2]int{i, (i + 1 + rng.IntN(255)) % 256})
	for _, p := range pairs {
		p := p
		mk("swap-slot-refs", fmt.Sprintf("slots[%d]<->slots[%d]", p[0], p[1]), false, -1, func(m *backup.ArchiveManifest) bool {
			m.Slots[p[0]], m.Slots[p[1]] = m.Slots[p[1]], m.Slots[p[0]]
			return true
		})
	}
	for _, k := range []int{0, 255, rng.IntN(256)} {
		k := k
		mk("ref-logical-bytes", fmt.Sprintf("slots[%d]+1", k), false, -1, func(m *backup.ArchiveManifest) bool {
			m.Slots[k].LogicalBytes++
			c38Retotal(m)
			return true
		})
		mk("ref-stored-bytes", fmt.Sprintf("slots[%d]+1", k), false, -1, func(m *backup.ArchiveManifest) bool {
			m.Slots[k].StoredBytes++
			c38Retotal(m)
			return true
		})
		mk("ref-records", fmt.Sprintf("slots[%d]+1", k), false, -1, func(m *backup.ArchiveManifest) bool {
			m.Slots[k].Records++
			c38Retotal(m)
			return true
		})
		mk("ref-max-message-id", fmt.Sprintf("slots[%d]+1", k), false, -1, func(m *backup.ArchiveManifest) bool {
			if m.Slots[k].MaxMessageID == ^uint64(0) {
				return false
			}
			m.Slots[k].MaxMessageID++
			c38Retotal(m)
			return true
		})
		mk("ref-sha", fmt.Sprintf("slots[%d]", k), false, -1, func(m *backup.ArchiveManifest) bool {
			m.Slots[k].ManifestSHA256 = c38FlipHex(rng, m.Slots[k].ManifestSHA256)
			return true
		})
		mk("ref-key-other-slot", fmt.Sprintf("slots[%d]", k), true, -1, func(m *backup.ArchiveManifest) bool {
			o := (k + 1 + rng.IntN(255)) % 256
			m.Slots[k].ManifestKey = a.slots[o].manifestKey
			m.Slots[k].ManifestSHA256 = a.slots[o].ref.ManifestSHA256
			return true
		})
		// Slot o's whole (valid, digest-correct) reference payload under index k:
		// the manifest then describes a different Hash Slot than it is filed under.
		mk("ref-foreign-manifest", fmt.Sprintf("slots[%d]", k), false, k, func(m *backup.ArchiveManifest) bool {
			o := (k + 1 + rng.IntN(255)) % 256
			ob := a.slots[o].body
			a.store.setOver(root+a.slots[k].manifestKey, ob)
			or := a.slots[o].ref
			m.Slots[k] = backup.SlotReference{HashSlot: uint16(k), ManifestKey: a.slots[k].manifestKey, ManifestSHA256: or.ManifestSHA256,
				LogicalBytes: or.LogicalBytes, StoredBytes: or.StoredBytes, Records: or.Records, MaxMessageID: or.MaxMessageID}
			c38Retotal(m)
			return true
		})
	}
	mk("archive-id", "id+x", true, -1, func(m *backup.ArchiveManifest) bool { m.ID += "x"; return true })
	mk("archive-total", "logical_bytes+1", true, -1, func(m *backup.ArchiveManifest) bool { m.LogicalBytes++; return m.LogicalBytes != 0 })
	mk("archive-total", "stored_bytes+1", true, -1, func(m *backup.ArchiveManifest) bool { m.StoredBytes++; return m.StoredBytes != 0 })
	mk("archive-total", "records+1", true, -1, func(m *backup.ArchiveManifest) bool { m.Records++; return m.Records != 0 })
	mk("archive-slot-count", "drop last slot", true, -1, func(m *backup.ArchiveManifest) bool { m.Slots = m.Slots[:255]; return true })
	mk("archive-dup-slot", "slots[255]=slots[0]", true, -1, func(m *backup.ArchiveManifest) bool { m.Slots[255] = m.Slots[0]; return true })

	// COMPLETE marker edits, canonical JSON, manifest untouched.
	mkMarker := func(class, detail string, edit func(c *backup.CompleteMarker)) {
		out = append(out, c38Mut{class: "resigned-" + class, kind: "complete", key: root + "COMPLETE", slot: -1, detail: detail,
			metaFail: true, apply: func() bool {
				c := backup.CompleteMarker{Format: backup.CompleteMarkerFormat, Version: backup.CompleteMarkerVersion,
					ManifestSHA256: c38Sha(a.manifestBody), ManifestBytes: uint64(len(a.manifestBody))}
				edit(&c)
				b, _ := json.Marshal(c)
				if bytes.Equal(b, a.markerBody) {
					return false
				}
				a.store.setOver(root+"COMPLETE", b)
				return true
			}})
	}
	mkMarker("marker-size", "manifest_bytes+1", func(c *backup.CompleteMarker) { c.ManifestBytes++ })
	mkMarker("marker-size", "manifest_bytes-1", func(c *backup.CompleteMarker) { c.ManifestBytes-- })
	mkMarker("marker-sha", "digit", func(c *backup.CompleteMarker) { c.ManifestSHA256 = c38FlipHex(rng, c.ManifestSHA256) })
	mkMarker("marker-version", "2", func(c *backup.CompleteMarker) { c.Version = 2 })
	if prev != nil {
		// marker / manifest of another (valid, published) archive
		out = append(out, c38Mut{class: "foreign", kind: "complete", key: root + "COMPLETE", slot: -1, metaFail: true,
			detail: "COMPLETE of archive " + prev.id, apply: func() bool { a.store.setOver(root+"COMPLETE", prev.markerBody); return true }})
		out = append(out, c38Mut{class: "foreign", kind: "archive-manifest", key: root + "manifest.json", slot: -1, metaFail: true,
			detail: "manifest.json of archive " + prev.id, apply: func() bool { a.store.setOver(root+"manifest.json", prev.manifestBody); return true }})
		out = append(out, c38Mut{class: "foreign-pair", kind: "archive-manifest", key: root + "manifest.json", slot: -1, metaFail: true,
			detail: "manifest.json+COMPLETE of archive " + prev.id, apply: func() bool {
				a.store.setOver(root+"manifest.json", prev.manifestBody)
				a.store.setOver(root+"COMPLETE", prev.markerBody)
				return true
			}})
	}
	out = append(out, c38Mut{class: "corrupt-marker", kind: "extra-object", key: root + "CORRUPT", slot: -1, metaFail: true,
		detail: "CORRUPT marker present", apply: func() bool { a.store.setOver(root+"CORRUPT", []byte("x")); return true }})
	return out
}

func c38RunMutation(r *verifkit.Run, rng *rand.Rand, a *c38Archive, m c38Mut) {
	st := a.store
	st.reset()
	defer st.reset()
	if !m.apply() {
		r.Count("mutation.skipped_noop."+m.class, 1)
		return
	}
	r.Eval(1)
	r.Count("mutation."+m.class+"."+m.kind, 1)
	wit := func(extra map[string]any) map[string]any {
		w := map[string]any{"archive": a.id, "class": m.class, "kind": m.kind, "object": strings.TrimPrefix(m.key, a.root()), "detail": m.detail}
		if m.slot >= 0 {
			w["slot"], w["slot_shape"], w["slot_chunks"] = m.slot, a.slots[m.slot].shape, len(a.slots[m.slot].chunkKeys)
		}
		for k, v := range extra {
			w[k] = v
		}
		return w
	}
	shape := "top"
	if m.slot >= 0 {
		shape = a.slots[m.slot].shape
	}
	r.Nontrivial(strings.Join([]string{m.class, m.kind, shape, m.pos, c38SlotPos(m.slot)}, "|"))

	if m.index != nil {
		// Message indexes are bound by the digest carried in the RPC receipt,
		// not by the archive manifests: archive verification must be unaffected
		// and the digest-bound loader must reject.
		var err error
		if r.Guard("LoadStoredMessageChunkManifest", wit(nil), func() {
			_, err = backup.LoadStoredMessageChunkManifest(c38Ctx, st, a.id, m.index.key, m.index.sha)
		}) {
			return
		}
		r.Count("index.err."+c38ErrClass(err), 1)
		if err == nil {
			r.Violation("index-accepted:"+m.class, wit(nil))
		}
		return
	}

	var vErr error
	if r.Guard("VerifyPublishedArchive", wit(nil), func() { _, vErr = backup.VerifyPublishedArchive(c38Ctx, st, a.id) }) {
		return
	}
	r.Count("verify.err."+c38ErrClass(vErr), 1)
	if vErr == nil {
		r.Violation("verify-accepted:"+m.class+":"+m.kind, wit(nil))
	}
	var meta backup.ArchiveManifest
	var mErr error
	if r.Guard("LoadPublishedArchiveMetadata", wit(nil), func() { meta, mErr = backup.LoadPublishedArchiveMetadata(c38Ctx, st, a.id) }) {
		return
	}
	switch {
	case m.metaFail && mErr == nil:
		r.Violation("metadata-accepted:"+m.class+":"+m.kind, wit(nil))
	case !m.metaFail && mErr != nil:
		r.Violation("metadata-false-reject:"+m.class+":"+m.kind, wit(map[string]any{"err": mErr.Error()}))
	case mErr == nil:
		cur, _ := st.get(a.root() + "manifest.json")
		if body, err := backup.MarshalArchiveManifest(meta); err != nil || !bytes.Equal(body, cur) {
			r.Violation("manifest-not-reproduced:metadata-under-mutation", wit(nil))
		}
		r.Count("metadata.ok_under_slot_mutation", 1)
	}
	if m.slot >= 0 && m.slotFail {
		sl := a.slots[m.slot]
		var why string
		if r.Guard("LoadStoredSlot", wit(nil), func() { why = c38SlotLoads(a, sl) }) {
			return
		}
		if why == "" {
			r.Violation("slot-accepted:"+m.class+":"+m.kind, wit(nil))
		}
		r.Count("slot.rejected", 1)
	}
	// no false rejection: an untouched slot still loads and is reproduced.
	if m.slot >= 0 && !strings.HasPrefix(m.class, "swap") && !strings.HasPrefix(m.class, "replace") || m.slot < 0 {
		u := rng.IntN(len(a.slots))
		if u != m.slot {
			if why := c38SlotLoads(a, a.slots[u]); why != "" {
				r.Violation("untouched-slot-rejected", wit(map[string]any{"untouched": u, "why": why}))
			}
			r.Count("slot.untouched_ok", 1)
		}
	}
}

func c38SlotPos(slot int) string {
	switch {
	case slot < 0:
		return "-"
	case slot == 0:
		return "slot0"
	case slot == 255:
		return "slot255"
	}
	return "slotmid"
}

func TestVerifC38Archive(t *testing.T) {
	r := verifkit.Start(t, "C38", "archive")
	defer r.Finish()
	r.SetRule("PRNG archives of 256 Hash Slots written by the repository's own export/publish code (FullExporter, FullStreamWriter.WriteAt, EncodeChunk+Marshal*Manifest, PublishArchive) into an in-memory ArchiveStore: most slots minimal, several rich (1-2 metadata parts, 0-3 message streams of 1-3 parts, legacy or attempt-scoped keys, message indexes), first and last slot always rich. Each archive must verify and reproduce every manifest byte-for-byte; then single mutations are applied one at a time to every object of the rich slots, a PRNG sample of minimal slots and the top-level objects: bit flips (first/last/PRNG byte), truncations, extensions, missing object, reported-size mismatch, swap/replacement by a peer object, plus forged-and-re-signed manifests whose only defect is intrinsic (descriptor size/digest edits, chunk/slot reference reordering, totals, marker size/digest, foreign manifest/marker). Non-trivial = a mutation that changed the visible repository state; distinct by (class, object kind, slot shape, chunk position, slot position).")
	r.Assume("The ArchiveStore returns the bytes it stores; reported-size lies are injected only as an explicit mutation class.")
	r.Assume("Objects not referenced by the manifest chain (catalog entries, HOLD, stray files, message indexes) are outside archive verification by design; message indexes are checked against their receipt digest instead.")

	// The code under test allocates a fresh zstd decoder (MiB-sized buffers)
	// per chunk; with the default GC pacing most of the run is background
	// sweeping/scavenging. Only pacing is changed, nothing is asserted on it.
	defer debug.SetGCPercent(debug.SetGCPercent(800))
	tmp := t.TempDir()
	nArch := r.N(2, 30)
	nRich := r.N(6, 9)
	nMinSample := r.N(3, 8)
	nFlips := r.N(1, 4)
	for ai := 0; ai < nArch; ai++ {
		if r.Skip(ai) {
			continue
		}
		c38ArchiveCase(r, ai, tmp, nRich, nMinSample, nFlips, 8)
	}
}

// c38AllMuts builds the mutation list of one archive; it is a pure function
// of rng's state, so every worker derives the identical list over its own
// store view.
func c38AllMuts(r *verifkit.Run, rng *rand.Rand, a *c38Archive, prev *c38Foreign, nMinSample, nFlips int) []c38Mut {
	var muts []c38Mut
	focus := append([]int(nil), a.rich...)
	for len(focus) < len(a.rich)+nMinSample {
		if rng.IntN(2) == 0 {
			focus = append(focus, rng.IntN(64))
		} else {
			focus = append(focus, rng.IntN(256))
		}
	}
	var allChunks, allManifests []string
	for _, hs := range focus {
		allChunks = append(allChunks, a.slots[hs].chunkKeys...)
		allManifests = append(allManifests, a.root()+a.slots[hs].manifestKey)
	}
	seen := map[int]bool{}
	for _, hs := range focus {
		if seen[hs] {
			continue
		}
		seen[hs] = true
		sl := a.slots[hs]
		r.Max("max_chunks_per_slot", len(sl.chunkKeys))
		r.Max("max_parts_per_stream", sl.maxParts)
		for ci, ck := range sl.chunkKeys {
			kind := "chunk-" + string(sl.manifest.Chunks[ci].Kind)
			peers := []string{allChunks[rng.IntN(len(allChunks))]}
			if len(sl.chunkKeys) > 1 {
				peers = append(peers, sl.chunkKeys[(ci+1+rng.IntN(len(sl.chunkKeys)-1))%len(sl.chunkKeys)])
			}
			for _, m := range c38ByteMuts(rng, a, ck, kind, hs, peers, nFlips) {
				m.pos, m.slotFail = c38Pos(ci, len(sl.chunkKeys)), true
				muts = append(muts, m)
			}
		}
		peers := []string{allManifests[rng.IntN(len(allManifests))], a.root() + a.slots[(hs+1)%256].manifestKey}
		for _, m := range c38ByteMuts(rng, a, a.root()+sl.manifestKey, "slot-manifest", hs, peers, nFlips+2) {
			m.slotFail = true
			muts = append(muts, m)
		}
		if sl.shape != "min" {
			muts = append(muts, c38ResignedSlotMuts(rng, a, sl)...)
		}
		for i := range sl.indexes {
			ix := &sl.indexes[i]
			for _, m := range c38ByteMuts(rng, a, a.root()+ix.key, "message-index", hs, nil, nFlips) {
				m.index = ix
				muts = append(muts, m)
			}
		}
	}
	for _, top := range []string{"manifest.json", "COMPLETE"} {
		kind := "archive-manifest"
		if top == "COMPLETE" {
			kind = "complete"
		}
		for _, m := range c38ByteMuts(rng, a, a.root()+top, kind, -1, nil, nFlips+6) {
			m.metaFail = true
			muts = append(muts, m)
		}
	}
	return append(muts, c38ResignedArchiveMuts(rng, a, prev)...)
}

func c38ArchiveCase(r *verifkit.Run, ai int, tmp string, nRich, nMinSample, nFlips, workers int) {
	rng := r.Rand(38, uint64(ai))
	r.BeginCase(ai, fmt.Sprintf("archive %d", ai))
	a, err := c38BuildArchive(rng, ai, tmp, nRich)
	if err != nil {
		// the repository's own producer rejected its own output
		r.Violation("publish-path-failed", map[string]any{"archive": ai, "err": err.Error()})
		return
	}
	var prev *c38Foreign
	{
		fm := c38GenArchiveManifest(rng)
		fb, err1 := backup.MarshalArchiveManifest(fm)
		mk, err2 := backup.NewCompleteMarker(fb)
		mb, err3 := backup.MarshalCompleteMarker(mk)
		if err1 != nil || err2 != nil || err3 != nil {
			panic(fmt.Sprint("c38 generator: ", err1, err2, err3))
		}
		prev = &c38Foreign{id: fm.ID, manifestBody: fb, markerBody: mb}
	}
	r.Count("archives", 1)
	r.Count("objects", len(a.store.keys(a.root())))
	r.Eval(1)
	c38CheckClean(r, a, true)
	// publication retry must not change a COMPLETE archive
	if again, err := rtbackup.PublishArchive(c38Ctx, a.store, a.req); err != nil || !reflect.DeepEqual(again, a.manifest) {
		r.Violation("republish-changed-archive", map[string]any{"archive": a.id, "err": fmt.Sprint(err)})
	} else if b, _ := a.store.get(a.root() + "manifest.json"); !bytes.Equal(b, a.manifestBody) {
		r.Violation("republish-changed-archive", map[string]any{"archive": a.id})
	}

	// From here on the archive is read-only: each worker applies its share of
	// the (identical) mutation list on a private overlay of the shared base.
	var wg sync.WaitGroup
	var nMuts atomic.Int64
	for w := 0; w < workers; w++ {
		wg.Add(1)
		go func(w int) {
			defer wg.Done()
			v := *a
			v.store = a.store.view()
			muts := c38AllMuts(r, r.Rand(38, uint64(ai), 1), &v, prev, nMinSample, nFlips)
			nMuts.Store(int64(len(muts)))
			wrng := r.Rand(38, uint64(ai), 2, uint64(w))
			for i, m := range muts {
				if i%workers == w {
					c38RunMutation(r, wrng, &v, m)
				}
			}
		}(w)
	}
	wg.Wait()
	r.Max("max_mutations_per_archive", int(nMuts.Load()))

	// extra objects: outside the statement (documented as not covered); observed only.
	a.store.reset()
	a.store.setOver(a.root()+"HOLD", []byte("{}"))
	a.store.setOver(a.root()+fmt.Sprintf("slots/%03d/stray.bin", rng.IntN(256)), []byte("stray"))
	if _, err := backup.VerifyPublishedArchive(c38Ctx, a.store, a.id); err == nil {
		r.Count("extra_object.ignored", 1)
	} else {
		r.Count("extra_object.rejected", 1)
	}
	a.store.reset()
	// the mutation layer is gone: the archive verifies again
	c38CheckClean(r, a, false)
	if r.WantSample() {
		sl := a.slots[a.rich[0]]
		r.Sample(map[string]any{"archive": a.id, "objects": len(a.store.keys(a.root())), "rich_slots": a.rich,
			"slot0_shape": sl.shape, "slot0_chunks": len(sl.chunkKeys), "slot0_manifest": string(sl.body), "mutations": nMuts.Load()})
	}
}
