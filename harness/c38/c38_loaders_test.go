//go:build verif

package c38_test

import (
	"bytes"
	"encoding/json"
	"fmt"
	"io"
	"math/rand/v2"
	"runtime"
	"runtime/debug"
	"strings"
	"testing"

	"github.com/klauspost/compress/zstd"

	"github.com/WuKongIM/WuKongIM/pkg/backup"
	"github.com/WuKongIM/WuKongIM/pkg/verifkit"
)

// ---------------------------------------------------------------------------
// Valid-object generators (canonical bodies come from the package's Marshal*).

func c38RandSha(rng *rand.Rand) string {
	const hexd = "0123456789abcdef"
	b := make([]byte, 64)
	for i := range b {
		b[i] = hexd[rng.IntN(16)]
	}
	return string(b)
}

func c38RandDescriptor(rng *rand.Rand) backup.ChunkDescriptor {
	return backup.ChunkDescriptor{StoredSHA256: c38RandSha(rng), LogicalSHA256: c38RandSha(rng),
		LogicalBytes: uint64(rng.IntN(64 << 20)), StoredBytes: 1 + uint64(rng.IntN(1<<20)), Compression: backup.CompressionZstd}
}

func c38RandIdentity(rng *rand.Rand) string {
	const al = "abcdefghijklmnopqrstuvwxyzABCDEFGHIJKLMNOPQRSTUVWXYZ0123456789-_"
	n := 1 + rng.IntN(24)
	b := make([]byte, n)
	for i := range b {
		b[i] = al[rng.IntN(len(al))]
	}
	return string(b)
}

func c38GenSlotManifest(rng *rand.Rand) backup.SlotManifest {
	hs := uint16(rng.IntN(256))
	prefix := fmt.Sprintf("slots/%03d", hs)
	if rng.IntN(2) == 0 {
		prefix = fmt.Sprintf("slots/%03d/attempts/%08d-%020d-%020d", hs, 1+rng.IntN(5), 1+rng.IntN(9), 1+rng.IntN(9))
	}
	m := backup.SlotManifest{Format: backup.SlotManifestFormat, Version: backup.SlotManifestVersion, HashSlot: hs,
		Cut: backup.SlotCut{PhysicalSlotID: 1 + uint32(rng.IntN(9)), LeaderTerm: 1 + uint64(rng.IntN(9)), AppliedTerm: 1 + uint64(rng.IntN(9)),
			ConfigurationVersion: 1 + uint64(rng.IntN(9)), AppliedIndex: 1 + c38U64(rng)>>1, CapturedAtUnixMillis: 1 + rng.Int64N(1<<41)}}
	seq := map[backup.ChunkKind]uint32{backup.ChunkKindMetadata: 1, backup.ChunkKindMessages: 1}
	add := func(kind backup.ChunkKind, stream uint32, name string) {
		parts := 1 + rng.IntN(3)
		for p := 1; p <= parts; p++ {
			c := backup.ChunkReference{Kind: kind, Sequence: seq[kind], Stream: stream, Part: uint32(p), Final: p == parts,
				Key: fmt.Sprintf("%s/%s-%06d.zst", prefix, name, seq[kind]), Descriptor: c38RandDescriptor(rng)}
			if p == 1 {
				c.Records = uint64(rng.IntN(1000))
				if kind == backup.ChunkKindMessages {
					c.MaxMessageID = c38U64(rng)
				}
			}
			seq[kind]++
			m.Chunks = append(m.Chunks, c)
		}
	}
	add(backup.ChunkKindMetadata, 0, "meta")
	for s := 1; s <= rng.IntN(4); s++ {
		add(backup.ChunkKindMessages, uint32(s), "messages")
	}
	for _, c := range m.Chunks {
		m.LogicalBytes += c.Descriptor.LogicalBytes
		m.StoredBytes += c.Descriptor.StoredBytes
		m.Records += c.Records
		if c.MaxMessageID > m.MaxMessageID {
			m.MaxMessageID = c.MaxMessageID
		}
	}
	return m
}

func c38GenMessageIndex(rng *rand.Rand) backup.MessageChunkManifest {
	hs := uint16(rng.IntN(256))
	first := 1 + uint32(rng.IntN(50))
	stream := 1 + uint32(rng.IntN(9))
	n := 1 + rng.IntN(4)
	var chunks []backup.ChunkReference
	for i := 0; i < n; i++ {
		c := backup.ChunkReference{Kind: backup.ChunkKindMessages, Sequence: first + uint32(i), Stream: stream, Part: uint32(i + 1), Final: i == n-1,
			Key: fmt.Sprintf("slots/%03d/attempts/a/messages-%06d.zst", hs, first+uint32(i)), Descriptor: c38RandDescriptor(rng)}
		if i == 0 {
			c.Records, c.MaxMessageID = uint64(rng.IntN(1000)), c38U64(rng)
		}
		chunks = append(chunks, c)
	}
	m, err := backup.NewMessageChunkManifest(hs, chunks)
	if err != nil {
		panic("c38 generator: " + err.Error())
	}
	return m
}

func c38GenArchiveManifest(rng *rand.Rand) backup.ArchiveManifest {
	slots := make([]backup.SlotReference, 256)
	perm := rng.Perm(256)
	ordered := rng.IntN(2) == 0
	for i := range slots {
		hs := i
		if !ordered {
			hs = perm[i] // the manifest schema itself only requires every slot exactly once
		}
		key := fmt.Sprintf("slots/%03d/manifest.json", hs)
		if rng.IntN(3) == 0 {
			key = fmt.Sprintf("slots/%03d/attempts/%08d-%020d-%020d/manifest.json", hs, 1+rng.IntN(3), 1+rng.IntN(9), 1+rng.IntN(9))
		}
		slots[i] = backup.SlotReference{HashSlot: uint16(hs), ManifestKey: key, ManifestSHA256: c38RandSha(rng),
			LogicalBytes: uint64(rng.IntN(1 << 30)), StoredBytes: uint64(rng.IntN(1 << 30)), Records: uint64(rng.IntN(1 << 20)), MaxMessageID: c38U64(rng)}
	}
	started := 1 + rng.Int64N(1<<41)
	completed := started + rng.Int64N(1<<22)
	cs := started + rng.Int64N(completed-started+1)
	ce := cs + rng.Int64N(completed-cs+1)
	m := backup.ArchiveManifest{Format: backup.ArchiveFormat, Version: backup.ArchiveVersion, ID: c38RandIdentity(rng),
		Trigger:         []backup.Trigger{backup.TriggerInitial, backup.TriggerScheduled, backup.TriggerManual}[rng.IntN(3)],
		SourceClusterID: c38RandIdentity(rng), SourceApplication: "app " + c38RandIdentity(rng), HashSlotCount: 256,
		StartedAtUnixMillis: started, CompletedAtUnixMillis: completed, CutStartedUnixMillis: cs, CutEndedUnixMillis: ce,
		Compression: backup.CompressionZstd, Checksum: backup.ChecksumSHA256, Slots: slots}
	if rng.IntN(4) != 0 {
		c38Retotal(&m)
	}
	return m
}

func c38GenRepositoryMarker(rng *rand.Rand) backup.RepositoryMarker {
	return backup.RepositoryMarker{Format: backup.RepositoryFormat, Version: backup.RepositoryVersion, SourceClusterID: c38RandIdentity(rng),
		HashSlotCount: 256, CreatedAtUnixMillis: 1 + rng.Int64N(1<<41)}
}

// ---------------------------------------------------------------------------
// JSON byte-level mutators.

// c38Structural returns the offsets of bytes outside string literals.
func c38Structural(b []byte) []int {
	var out []int
	inStr, esc := false, false
	for i, c := range b {
		if inStr {
			switch {
			case esc:
				esc = false
			case c == '\\':
				esc = true
			case c == '"':
				inStr = false
			}
			continue
		}
		if c == '"' {
			inStr = true
			continue
		}
		out = append(out, i)
	}
	return out
}

func c38Insert(b []byte, at int, ins []byte) []byte {
	out := make([]byte, 0, len(b)+len(ins))
	out = append(out, b[:at]...)
	out = append(out, ins...)
	return append(out, b[at:]...)
}

// c38SplitMembers splits the top-level object b = {m1,m2,...} into member byte slices.
func c38SplitMembers(b []byte) [][]byte {
	if len(b) < 2 || b[0] != '{' || b[len(b)-1] != '}' {
		return nil
	}
	var out [][]byte
	depth, start := 0, 1
	inStr, esc := false, false
	for i := 1; i < len(b)-1; i++ {
		c := b[i]
		if inStr {
			switch {
			case esc:
				esc = false
			case c == '\\':
				esc = true
			case c == '"':
				inStr = false
			}
			continue
		}
		switch c {
		case '"':
			inStr = true
		case '{', '[':
			depth++
		case '}', ']':
			depth--
		case ',':
			if depth == 0 {
				out = append(out, b[start:i])
				start = i + 1
			}
		}
	}
	return append(out, b[start:len(b)-1])
}

type c38JSONMut struct {
	class      string
	mustReject bool // the result is certainly not the canonical encoding of any value
	body       []byte
}

// c38MutateJSON derives one mutated body from a canonical one.
func c38MutateJSON(rng *rand.Rand, canon []byte) c38JSONMut {
	structural := c38Structural(canon)
	pickStruct := func(pred func(c byte) bool) int {
		for tries := 0; tries < 64; tries++ {
			i := structural[rng.IntN(len(structural))]
			if pred(canon[i]) {
				return i
			}
		}
		return -1
	}
	switch k := rng.IntN(17); k {
	case 0: // whitespace at a structural position
		i := pickStruct(func(c byte) bool { return c == ',' || c == ':' || c == '{' || c == '}' || c == '[' || c == ']' })
		if i < 0 {
			break
		}
		ws := [][]byte{[]byte(" "), []byte("\n"), []byte("\t"), []byte("\r\n"), []byte("  ")}[rng.IntN(5)]
		at := i
		if rng.IntN(2) == 0 {
			at = i + 1
		}
		return c38JSONMut{"whitespace", true, c38Insert(canon, at, ws)}
	case 1: // unknown field (top level or nested object)
		i := pickStruct(func(c byte) bool { return c == '{' })
		if i < 0 {
			break
		}
		vals := []string{`1`, `"x"`, `null`, `{}`, `[]`, `true`, `{"a":[1,2,{"b":null}]}`}
		ins := `"zz_verif_unknown":` + vals[rng.IntN(len(vals))]
		if i+1 < len(canon) && canon[i+1] != '}' {
			ins += ","
		}
		class := "unknown-field-nested"
		if i == 0 {
			class = "unknown-field-top"
		}
		return c38JSONMut{class, true, c38Insert(canon, i+1, []byte(ins))}
	case 2: // unknown field appended as last top-level member
		return c38JSONMut{"unknown-field-top", true, c38Insert(canon, len(canon)-1, []byte(`,"zz_verif_unknown":0`))}
	case 3: // duplicate key
		mem := c38SplitMembers(canon)
		if len(mem) == 0 {
			break
		}
		m := mem[rng.IntN(len(mem))]
		if rng.IntN(2) == 0 {
			return c38JSONMut{"duplicate-key", true, c38Insert(canon, 1, append(append([]byte(nil), m...), ','))}
		}
		return c38JSONMut{"duplicate-key", true, c38Insert(canon, len(canon)-1, append([]byte{','}, m...))}
	case 4: // key case (encoding/json matches keys case-insensitively)
		q := bytes.Index(canon, []byte(`":`))
		if q < 0 {
			break
		}
		// choose a random key
		var keys [][2]int
		for _, i := range structural {
			if canon[i] == ':' && i > 0 && canon[i-1] == '"' {
				j := bytes.LastIndexByte(canon[:i-1], '"')
				if j >= 0 {
					keys = append(keys, [2]int{j + 1, i - 1})
				}
			}
		}
		if len(keys) == 0 {
			break
		}
		kk := keys[rng.IntN(len(keys))]
		out := append([]byte(nil), canon...)
		changed := false
		for p := kk[0]; p < kk[1]; p++ {
			if out[p] >= 'a' && out[p] <= 'z' && (rng.IntN(2) == 0 || !changed) {
				out[p] -= 32
				changed = true
			}
		}
		if !changed {
			break
		}
		return c38JSONMut{"key-case", true, out}
	case 5: // trailing data
		tails := []string{" ", "\n", "{}", "null", "0", ",", "x", "}", "\x00", string(canon)}
		return c38JSONMut{"trailing-data", true, append(append([]byte(nil), canon...), tails[rng.IntN(len(tails))]...)}
	case 6: // leading whitespace / BOM
		heads := []string{" ", "\n", "\t", "\xef\xbb\xbf"}
		return c38JSONMut{"leading-data", true, append([]byte(heads[rng.IntN(len(heads))]), canon...)}
	case 7: // alternative number spelling
		var nums [][2]int
		for x := 0; x < len(structural); x++ {
			i := structural[x]
			if canon[i] >= '0' && canon[i] <= '9' && (x == 0 || structural[x-1] != i-1 || !(canon[i-1] >= '0' && canon[i-1] <= '9')) {
				j := i
				for j < len(canon) && canon[j] >= '0' && canon[j] <= '9' {
					j++
				}
				nums = append(nums, [2]int{i, j})
			}
		}
		if len(nums) == 0 {
			break
		}
		nn := nums[rng.IntN(len(nums))]
		lit := string(canon[nn[0]:nn[1]])
		alt := []string{lit + ".0", lit + "e0", "0" + lit, lit + "E+0", `"` + lit + `"`, "+" + lit, lit + ".", "-" + lit + "e0"}[rng.IntN(8)]
		out := append(append(append([]byte(nil), canon[:nn[0]]...), alt...), canon[nn[1]:]...)
		return c38JSONMut{"number-spelling", true, out}
	case 8: // escaped spelling of a string character
		var cand []int
		si := 0
		for i, c := range canon {
			for si < len(structural) && structural[si] < i {
				si++
			}
			inString := !(si < len(structural) && structural[si] == i)
			if inString && c != '"' && c != '\\' && c >= 0x20 && c < 0x7f {
				cand = append(cand, i)
			}
		}
		if len(cand) == 0 {
			break
		}
		i := cand[rng.IntN(len(cand))]
		esc := fmt.Sprintf(`\u%04x`, canon[i])
		if canon[i] == '/' && rng.IntN(2) == 0 {
			esc = `\/`
		}
		out := append(append(append([]byte(nil), canon[:i]...), esc...), canon[i+1:]...)
		return c38JSONMut{"string-escape", true, out}
	case 9: // member order
		mem := c38SplitMembers(canon)
		if len(mem) < 2 {
			break
		}
		i := rng.IntN(len(mem))
		j := (i + 1 + rng.IntN(len(mem)-1)) % len(mem)
		if bytes.Equal(mem[i], mem[j]) {
			break
		}
		mem2 := append([][]byte(nil), mem...)
		mem2[i], mem2[j] = mem2[j], mem2[i]
		return c38JSONMut{"member-order", true, append(append([]byte{'{'}, bytes.Join(mem2, []byte{','})...), '}')}
	case 10: // truncation
		return c38JSONMut{"truncated", true, append([]byte(nil), canon[:rng.IntN(len(canon))]...)}
	case 11, 12: // one digit changed: usually a different, possibly valid, value
		i := pickStruct(func(c byte) bool { return c >= '0' && c <= '9' })
		if i < 0 {
			break
		}
		out := append([]byte(nil), canon...)
		out[i] = byte('0' + rng.IntN(10))
		return c38JSONMut{"digit-edit", false, out}
	case 13: // value replaced by null / other literal
		i := pickStruct(func(c byte) bool { return c == ':' })
		if i < 0 || i+1 >= len(canon) {
			break
		}
		// find end of the scalar or string value following ':'
		j := i + 1
		if canon[j] == '{' || canon[j] == '[' {
			break
		}
		if canon[j] == '"' {
			j++
			for j < len(canon) && canon[j] != '"' {
				if canon[j] == '\\' {
					j++
				}
				j++
			}
			j++
		} else {
			for j < len(canon) && canon[j] != ',' && canon[j] != '}' && canon[j] != ']' {
				j++
			}
		}
		lits := []string{"null", "true", "0", `""`, "-1", "18446744073709551616", "1e400", "[]", "{}", `"\ud800"`}
		out := append(append(append([]byte(nil), canon[:i+1]...), lits[rng.IntN(len(lits))]...), canon[j:]...)
		return c38JSONMut{"value-literal", false, out}
	case 14: // byte deleted
		i := rng.IntN(len(canon))
		return c38JSONMut{"byte-delete", false, append(append([]byte(nil), canon[:i]...), canon[i+1:]...)}
	case 15: // byte inserted
		i := rng.IntN(len(canon) + 1)
		return c38JSONMut{"byte-insert", false, c38Insert(canon, i, []byte{byte(rng.UintN(256))})}
	}
	// default: bit flip
	out := append([]byte(nil), canon...)
	out[rng.IntN(len(out))] ^= 1 << rng.UintN(8)
	return c38JSONMut{"bitflip", false, out}
}

// c38ArbitraryJSON builds hostile documents from the schema's own key names.
func c38ArbitraryJSON(rng *rand.Rand, keys []string) []byte {
	var sb strings.Builder
	var val func(depth int)
	val = func(depth int) {
		switch k := rng.IntN(12); {
		case k == 0 && depth < 5:
			sb.WriteByte('{')
			n := rng.IntN(6)
			for i := 0; i < n; i++ {
				if i > 0 {
					sb.WriteByte(',')
				}
				fmt.Fprintf(&sb, "%q:", keys[rng.IntN(len(keys))])
				val(depth + 1)
			}
			sb.WriteByte('}')
		case k == 1 && depth < 5:
			sb.WriteByte('[')
			n := rng.IntN(6)
			for i := 0; i < n; i++ {
				if i > 0 {
					sb.WriteByte(',')
				}
				val(depth + 1)
			}
			sb.WriteByte(']')
		case k == 2:
			sb.WriteString("null")
		case k == 3:
			sb.WriteString([]string{"true", "false"}[rng.IntN(2)])
		case k == 4:
			sb.WriteString([]string{"-1", "1e400", "18446744073709551616", "0.5", "-0", "4294967296", "65536", "9223372036854775808"}[rng.IntN(8)])
		case k <= 7:
			fmt.Fprintf(&sb, "%d", c38U64(rng))
		case k == 8:
			fmt.Fprintf(&sb, "%q", c38RandSha(rng))
		default:
			strs := []string{backup.ArchiveFormat, backup.SlotManifestFormat, backup.RepositoryFormat, backup.CompleteMarkerFormat,
				"wukongim-full-backup-message-chunks", "zstd", "sha256", "metadata", "messages", "manual", "", "../x", "slots/000/manifest.json",
				"slots/000/meta-000001.zst", strings.Repeat("a", 1+rng.IntN(300)), "\u0000", "é"}
			fmt.Fprintf(&sb, "%q", strs[rng.IntN(len(strs))])
		}
	}
	// top level: an object using each key at most once, in schema order, so
	// that deep validation is reached reasonably often.
	sb.WriteByte('{')
	first := true
	for _, k := range keys {
		if rng.IntN(8) == 0 {
			continue
		}
		if !first {
			sb.WriteByte(',')
		}
		first = false
		fmt.Fprintf(&sb, "%q:", k)
		val(1)
	}
	sb.WriteByte('}')
	return []byte(sb.String())
}

// ---------------------------------------------------------------------------

type c38Loader struct {
	name string
	keys []string
	// gen returns a canonical valid body and, for the marker, its bound manifest.
	gen func(rng *rand.Rand) (body []byte, bound []byte)
	// load returns (validating re-marshal of the accepted value, plain json.Marshal of it, error)
	load func(body, bound []byte) (canon []byte, plain []byte, err error)
}

func c38Loaders() []c38Loader {
	must := func(b []byte, err error) []byte {
		if err != nil {
			panic("c38 generator produced an invalid object: " + err.Error())
		}
		return b
	}
	return []c38Loader{
		{name: "LoadArchiveManifest",
			keys: []string{"format", "version", "id", "trigger", "source_cluster_id", "source_application", "hash_slot_count", "started_at_unix_ms", "completed_at_unix_ms", "cut_started_at_unix_ms", "cut_ended_at_unix_ms", "compression", "checksum", "logical_bytes", "stored_bytes", "records", "max_message_id", "slots", "hash_slot", "manifest_key", "manifest_sha256"},
			gen: func(rng *rand.Rand) ([]byte, []byte) {
				return must(backup.MarshalArchiveManifest(c38GenArchiveManifest(rng))), nil
			},
			load: func(body, _ []byte) ([]byte, []byte, error) {
				m, err := backup.LoadArchiveManifest(body)
				if err != nil {
					return nil, nil, err
				}
				c, cerr := backup.MarshalArchiveManifest(m)
				p, _ := json.Marshal(m)
				if cerr != nil {
					c = nil
				}
				return c, p, nil
			}},
		{name: "LoadSlotManifest",
			keys: []string{"format", "version", "hash_slot", "cut", "physical_slot_id", "leader_term", "applied_term", "configuration_version", "applied_index", "captured_at_unix_ms", "chunks", "kind", "sequence", "stream", "part", "final", "key", "descriptor", "stored_sha256", "logical_sha256", "logical_bytes", "stored_bytes", "compression", "records", "max_message_id"},
			gen: func(rng *rand.Rand) ([]byte, []byte) {
				return must(backup.MarshalSlotManifest(c38GenSlotManifest(rng))), nil
			},
			load: func(body, _ []byte) ([]byte, []byte, error) {
				m, err := backup.LoadSlotManifest(body)
				if err != nil {
					return nil, nil, err
				}
				c, cerr := backup.MarshalSlotManifest(m)
				p, _ := json.Marshal(m)
				if cerr != nil {
					c = nil
				}
				return c, p, nil
			}},
		{name: "LoadMessageChunkManifest",
			keys: []string{"format", "version", "hash_slot", "chunks", "kind", "sequence", "stream", "part", "final", "key", "descriptor", "stored_sha256", "logical_sha256", "logical_bytes", "stored_bytes", "compression", "records", "max_message_id"},
			gen: func(rng *rand.Rand) ([]byte, []byte) {
				return must(backup.MarshalMessageChunkManifest(c38GenMessageIndex(rng))), nil
			},
			load: func(body, _ []byte) ([]byte, []byte, error) {
				m, err := backup.LoadMessageChunkManifest(body)
				if err != nil {
					return nil, nil, err
				}
				c, cerr := backup.MarshalMessageChunkManifest(m)
				p, _ := json.Marshal(m)
				if cerr != nil {
					c = nil
				}
				return c, p, nil
			}},
		{name: "LoadRepositoryMarker",
			keys: []string{"format", "version", "source_cluster_id", "hash_slot_count", "created_at_unix_ms"},
			gen: func(rng *rand.Rand) ([]byte, []byte) {
				return must(backup.MarshalRepositoryMarker(c38GenRepositoryMarker(rng))), nil
			},
			load: func(body, _ []byte) ([]byte, []byte, error) {
				m, err := backup.LoadRepositoryMarker(body)
				if err != nil {
					return nil, nil, err
				}
				c, cerr := backup.MarshalRepositoryMarker(m)
				p, _ := json.Marshal(m)
				if cerr != nil {
					c = nil
				}
				return c, p, nil
			}},
		{name: "LoadCompleteMarker",
			keys: []string{"format", "version", "manifest_sha256", "manifest_bytes"},
			gen: func(rng *rand.Rand) ([]byte, []byte) {
				mb := must(backup.MarshalArchiveManifest(c38GenArchiveManifest(rng)))
				mk, err := backup.NewCompleteMarker(mb)
				if err != nil {
					panic("c38 generator: " + err.Error())
				}
				return must(backup.MarshalCompleteMarker(mk)), mb
			},
			load: func(body, bound []byte) ([]byte, []byte, error) {
				m, err := backup.LoadCompleteMarker(body, bound)
				if err != nil {
					return nil, nil, err
				}
				c, cerr := backup.MarshalCompleteMarker(m)
				p, _ := json.Marshal(m)
				if cerr != nil {
					c = nil
				}
				// the accepted marker must bind exactly `bound`
				if m.ManifestBytes != uint64(len(bound)) || m.ManifestSHA256 != c38Sha(bound) {
					c = nil
				}
				return c, p, nil
			}},
	}
}

func c38TotalAlloc() uint64 {
	var ms runtime.MemStats
	runtime.ReadMemStats(&ms)
	return ms.TotalAlloc
}

// Allocation bound per loader call: linear in the input with a generous
// constant (encoding/json materialises ~140 B structs from 3-byte "{}," array
// members and grows slices geometrically; the canonical re-marshal is another
// small multiple of the input). A decoder that trusted a count/size field or
// expanded input super-linearly would exceed it immediately.
func c38AllocBound(n int) uint64 { return 1024*uint64(n) + 4<<20 }

func c38CheckLoad(r *verifkit.Run, l c38Loader, class string, mustReject bool, body, bound []byte) {
	r.Eval(1)
	var canon, plain []byte
	var err error
	before := c38TotalAlloc()
	if r.Guard(l.name, map[string]any{"class": class, "len": len(body), "head": c38Head(body)}, func() { canon, plain, err = l.load(body, bound) }) {
		return
	}
	alloc := c38TotalAlloc() - before
	r.Max("max_alloc_bytes."+l.name, int(alloc))
	if alloc > c38AllocBound(len(body)+len(bound)) {
		r.Violation("alloc-unbounded:"+l.name+":"+class, map[string]any{"input_bytes": len(body), "allocated": alloc, "bound": c38AllocBound(len(body) + len(bound)), "head": c38Head(body)})
	}
	if err != nil {
		r.Count("load."+l.name+"."+class+".rejected", 1)
		r.Count("err."+c38ErrClass(err), 1)
		if class == "valid" {
			r.Violation("valid-rejected:"+l.name, map[string]any{"err": err.Error(), "body": c38Head(body)})
		}
		return
	}
	r.Count("load."+l.name+"."+class+".accepted", 1)
	if mustReject {
		r.Violation("non-canonical-accepted:"+l.name+":"+class, map[string]any{"body": c38Head(body), "len": len(body)})
		return
	}
	// accepted ⇒ the input is exactly the canonical encoding of a valid value
	if !bytes.Equal(plain, body) {
		r.Violation("accepted-not-canonical:"+l.name+":"+class, map[string]any{"body": c38Head(body), "remarshal": c38Head(plain)})
	} else if !bytes.Equal(canon, body) {
		r.Violation("accepted-not-valid:"+l.name+":"+class, map[string]any{"body": c38Head(body)})
	}
}

func c38Head(b []byte) string {
	if len(b) > 600 {
		return string(b[:300]) + " …[" + fmt.Sprint(len(b)) + " bytes]… " + string(b[len(b)-200:])
	}
	return string(b)
}

type c38CountWriter struct{ n uint64 }

func (w *c38CountWriter) Write(p []byte) (int, error) { w.n += uint64(len(p)); return len(p), nil }

func TestVerifC38Loaders(t *testing.T) {
	r := verifkit.Start(t, "C38", "loaders")
	defer r.Finish()
	r.SetRule("For each manifest loader (LoadArchiveManifest, LoadSlotManifest, LoadMessageChunkManifest, LoadRepositoryMarker, LoadCompleteMarker): PRNG valid objects encoded by the package's Marshal* must load; each is then mutated at the JSON/byte level (whitespace, unknown field top/nested, duplicate key, key case, trailing/leading data, number spelling, string escapes, member order, truncation: all certainly non-canonical => must be rejected; digit edits, literal swaps, byte insert/delete/flip and schema-keyed arbitrary JSON: accepted only if the input equals the canonical re-encoding of a value the validating Marshal* accepts). Every call is panic-guarded and its TotalAlloc delta is bounded by 1 KiB per input byte + 4 MiB. Oversize cases: objects above the 64 MiB manifest limit, size-lying/endless store bodies, >200000 index entries, a zstd bomb. Non-trivial = mutated/arbitrary input (not the unmodified valid body); distinct by (loader, class, outcome, input length bucket).")

	loaders := c38Loaders()
	defer debug.SetGCPercent(debug.SetGCPercent(400))
	// runtime.ReadMemStats stops the world around every loader call; with few
	// Ps that is cheap even on an oversubscribed machine (the workload is
	// single-threaded anyway).
	defer runtime.GOMAXPROCS(runtime.GOMAXPROCS(2))
	nValid := r.N(30, 500)
	nMutPer := r.N(40, 100)
	nArb := r.N(1000, 30000)
	ci := 0
	for li, l := range loaders {
		for v := 0; v < nValid; v++ {
			rng := r.Rand(3800, uint64(li), uint64(v))
			if r.Skip(ci) {
				ci++
				continue
			}
			r.BeginCase(ci, fmt.Sprintf("%s valid#%d + mutations", l.name, v))
			ci++
			body, bound := l.gen(rng)
			c38CheckLoad(r, l, "valid", false, body, bound)
			for k := 0; k < nMutPer; k++ {
				m := c38MutateJSON(rng, body)
				if bytes.Equal(m.body, body) {
					continue
				}
				c38CheckLoad(r, l, m.class, m.mustReject, m.body, bound)
				r.Nontrivial(fmt.Sprintf("%s|%s|%d", l.name, m.class, len(m.body)/64))
			}
			if l.name == "LoadCompleteMarker" {
				// valid canonical marker of a different manifest / a mutated manifest
				_, other := l.gen(rng)
				c38CheckLoad(r, l, "marker-other-manifest", true, body, other)
				mm := c38MutateJSON(rng, bound)
				if !bytes.Equal(mm.body, bound) {
					c38CheckLoad(r, l, "marker-mutated-manifest", true, body, mm.body)
				}
			}
		}
		rng := r.Rand(3801, uint64(li))
		r.BeginCase(ci, l.name+" arbitrary JSON")
		ci++
		var bound []byte
		if l.name == "LoadCompleteMarker" {
			_, bound = l.gen(rng)
		}
		for k := 0; k < nArb; k++ {
			body := c38ArbitraryJSON(rng, l.keys)
			c38CheckLoad(r, l, "arbitrary", false, body, bound)
			r.Nontrivial(fmt.Sprintf("%s|arbitrary|%d", l.name, len(body)/16))
		}
		// amplification / depth bombs
		for _, n := range []int{1000, r.N(100_000, 1_000_000)} {
			arr := "[" + strings.TrimSuffix(strings.Repeat("{},", n), ",") + "]"
			for _, key := range []string{"slots", "chunks"} {
				body := []byte(`{"format":"x","version":1,"` + key + `":` + arr + `}`)
				c38CheckLoad(r, l, "array-bomb", false, body, bound)
			}
			deep := []byte(`{"` + "slots" + `":` + strings.Repeat("[", n) + strings.Repeat("]", n) + `}`)
			c38CheckLoad(r, l, "depth-bomb", false, deep, bound)
			long := []byte(`{"format":"` + strings.Repeat("a", n) + `","id":"` + strings.Repeat("b", n) + `"}`)
			c38CheckLoad(r, l, "long-string", false, long, bound)
			r.Nontrivial(fmt.Sprintf("%s|bombs|%d", l.name, n))
		}
	}

	// ---- explicit byte / entry limits ------------------------------------
	r.BeginCase(ci, "oversize objects")
	st := c38NewStore()
	max := backup.MaxSlotManifestBytes
	// (a) object larger than the limit: rejected from metadata alone, nothing read
	st.endlessOver("big", max+1)
	st.bytesRead.Store(0)
	if _, err := backup.ReadStoredObject(c38Ctx, st, "big", max); err == nil {
		r.Violation("oversize-accepted:ReadStoredObject", nil)
	} else if n := st.bytesRead.Load(); n != 0 {
		r.Violation("oversize-read:ReadStoredObject", map[string]any{"bytes_read": n})
	}
	r.Eval(1)
	r.Count("oversize.read_stored_object_rejected", 1)
	// (b) stored manifests above the limit through the archive-level loaders
	for _, c := range []struct {
		name, key string
		call      func() error
	}{
		{"LoadStoredSlot", "backups/b/slots/007/manifest.json", func() error { _, _, err := backup.LoadStoredSlot(c38Ctx, st, "b", 7, true); return err }},
		{"LoadPublishedArchiveMetadata", "backups/b/manifest.json", func() error { _, err := backup.LoadPublishedArchiveMetadata(c38Ctx, st, "b"); return err }},
		{"LoadStoredMessageChunkManifest", "backups/b/slots/007/idx.json", func() error {
			_, err := backup.LoadStoredMessageChunkManifest(c38Ctx, st, "b", "slots/007/idx.json", strings.Repeat("a", 64))
			return err
		}},
		{"EnsureRepository", backup.RepositoryMarkerKey, func() error { _, err := backup.EnsureRepository(c38Ctx, st, "cluster-a", 1); return err }},
	} {
		st.reset()
		st.endlessOver(c.key, max+1)
		st.bytesRead.Store(0)
		before := c38TotalAlloc()
		var err error
		r.Guard(c.name, "oversize", func() { err = c.call() })
		alloc := c38TotalAlloc() - before
		r.Eval(1)
		if err == nil {
			r.Violation("oversize-accepted:"+c.name, nil)
		}
		if n := st.bytesRead.Load(); n != 0 {
			r.Violation("oversize-read:"+c.name, map[string]any{"bytes_read": n})
		}
		if alloc > 4<<20 {
			r.Violation("alloc-unbounded:oversize:"+c.name, map[string]any{"allocated": alloc})
		}
		r.Count("oversize."+c.name+"_rejected", 1)
		r.Nontrivial("oversize|" + c.name)
	}
	// (c) a store that lies: small reported size, endless body. The read must
	// stop at the limit and be rejected.
	st.reset()
	st.endlessOver("liar", 100)
	st.bytesRead.Store(0)
	before := c38TotalAlloc()
	_, err := backup.ReadStoredObject(c38Ctx, st, "liar", max)
	alloc := c38TotalAlloc() - before
	r.Eval(1)
	if err == nil {
		r.Violation("endless-body-accepted:ReadStoredObject", nil)
	}
	if n := st.bytesRead.Load(); n > max+1 {
		r.Violation("endless-body-overread:ReadStoredObject", map[string]any{"bytes_read": n, "limit": max + 1})
	}
	if alloc > 16*max {
		r.Violation("alloc-unbounded:endless-body", map[string]any{"allocated": alloc})
	}
	r.Note("endless_body", map[string]any{"bytes_read": st.bytesRead.Load(), "allocated": alloc})
	r.Nontrivial("oversize|endless-body")
	st.reset()
	runtime.GC()

	// (d) zstd bomb: tiny stored chunk expanding beyond the logical chunk limit
	{
		enc, _ := zstd.NewWriter(nil)
		bomb := enc.EncodeAll(make([]byte, backup.MaxChunkLogicalBytes+4096), nil)
		enc.Close()
		for _, logical := range []uint64{backup.MaxChunkLogicalBytes, 1, backup.MaxChunkLogicalBytes + 4096} {
			desc := backup.ChunkDescriptor{StoredSHA256: c38Sha(bomb), LogicalSHA256: strings.Repeat("0", 64), LogicalBytes: logical,
				StoredBytes: uint64(len(bomb)), Compression: backup.CompressionZstd}
			w := &c38CountWriter{}
			var err error
			r.Guard("DecodeChunk", "zstd-bomb", func() { err = backup.DecodeChunk(w, bytes.NewReader(bomb), desc) })
			r.Eval(1)
			if err == nil {
				r.Violation("zstd-bomb-accepted:DecodeChunk", map[string]any{"stored": len(bomb), "logical_claimed": logical})
			}
			if w.n > backup.MaxChunkLogicalBytes+1 {
				r.Violation("zstd-bomb-expanded:DecodeChunk", map[string]any{"written": w.n})
			}
			r.Max("zstd_bomb_bytes_expanded", int(w.n))
			r.Nontrivial(fmt.Sprintf("oversize|zstd-bomb|%d", logical))
		}
		r.Note("zstd_bomb_stored_bytes", len(bomb))
	}
	runtime.GC()

	// (e) arbitrary bytes as chunks: never a panic, never accepted
	{
		rng := r.Rand(3802)
		for k := 0; k < r.N(3000, 60000); k++ {
			payload := c38Payload(rng, 4096)
			var enc bytes.Buffer
			desc, err := backup.EncodeChunk(&enc, bytes.NewReader(payload))
			if err != nil {
				r.Violation("encode-chunk-failed", map[string]any{"len": len(payload), "err": err.Error()})
				continue
			}
			stored := enc.Bytes()
			var out bytes.Buffer
			if err := backup.DecodeChunk(&out, bytes.NewReader(stored), desc); err != nil || !bytes.Equal(out.Bytes(), payload) {
				r.Violation("chunk-roundtrip", map[string]any{"len": len(payload), "err": fmt.Sprint(err)})
			}
			mut := append([]byte(nil), stored...)
			class := ""
			switch rng.IntN(5) {
			case 0:
				mut[rng.IntN(len(mut))] ^= 1 << rng.UintN(8)
				class = "bitflip"
			case 1:
				mut = mut[:rng.IntN(len(mut))]
				class = "truncate"
			case 2:
				mut = append(mut, byte(rng.UintN(256)))
				class = "extend"
			case 3:
				mut = append(mut, stored...) // a second complete zstd frame
				class = "second-frame"
			default:
				for i := range mut {
					mut[i] = byte(rng.UintN(256))
				}
				class = "garbage"
			}
			var derr error
			w := &c38CountWriter{}
			if r.Guard("DecodeChunk", map[string]any{"class": class, "stored": verifkit.Hex8(mut)}, func() { derr = backup.DecodeChunk(w, bytes.NewReader(mut), desc) }) {
				continue
			}
			r.Eval(1)
			r.Count("chunk."+class, 1)
			if derr == nil {
				r.Violation("mutated-chunk-accepted:"+class, map[string]any{"logical_len": len(payload), "stored_len": len(stored)})
			}
			r.Nontrivial(fmt.Sprintf("chunk|%s|%d", class, len(stored)/32))
		}
	}

	// (f) message index with more than the documented 200000 entries
	{
		rng := r.Rand(3803)
		n := 200_001
		chunks := make([]backup.ChunkReference, n)
		d := c38RandDescriptor(rng)
		for i := range chunks {
			chunks[i] = backup.ChunkReference{Kind: backup.ChunkKindMessages, Sequence: 1 + uint32(i), Stream: 1, Part: uint32(i + 1), Final: i == n-1, Key: "k", Descriptor: d}
		}
		m := backup.MessageChunkManifest{Format: "wukongim-full-backup-message-chunks", Version: 1, HashSlot: 3, Chunks: chunks,
			LogicalBytes: d.LogicalBytes * uint64(n), StoredBytes: d.StoredBytes * uint64(n)}
		body, _ := json.Marshal(m)
		chunks = nil
		m.Chunks = nil
		before := c38TotalAlloc()
		var err error
		r.Guard("LoadMessageChunkManifest", "200001 entries", func() { _, err = backup.LoadMessageChunkManifest(body) })
		alloc := c38TotalAlloc() - before
		r.Eval(1)
		if err == nil {
			r.Violation("entry-limit-not-enforced:LoadMessageChunkManifest", map[string]any{"entries": n, "bytes": len(body)})
		}
		if alloc > c38AllocBound(len(body)) {
			r.Violation("alloc-unbounded:LoadMessageChunkManifest:entry-limit", map[string]any{"allocated": alloc, "input_bytes": len(body)})
		}
		r.Note("entry_limit_case", map[string]any{"entries": n, "body_bytes": len(body), "allocated": alloc, "err": fmt.Sprint(err)})
		r.Nontrivial("oversize|entry-limit")
		// the marshal side has the same byte limit
		if _, err := backup.MarshalMessageChunkManifest(backup.MessageChunkManifest{}); err == nil {
			r.Violation("marshal-accepted-empty-index", nil)
		}
	}
	_ = io.Discard
}
