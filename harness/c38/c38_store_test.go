//go:build verif

package c38_test

import (
	"bytes"
	"context"
	"errors"
	"io"
	"sort"
	"strings"
	"sync"
	"sync/atomic"

	"github.com/WuKongIM/WuKongIM/pkg/backup"
)

// c38Store is an in-memory backup.ArchiveStore with a mutation layer: `base`
// holds what the real publish path wrote; `over` holds the single mutation
// under test and is dropped by reset(). It honours the ArchiveStore contract
// (exact keys, exact sizes, ordered List) unless a mutation explicitly asks
// for a lie (reported size != body size, endless body).
type c38Store struct {
	mu        sync.Mutex
	base      map[string][]byte
	over      map[string]c38Override
	bytesRead atomic.Uint64
	opens     atomic.Uint64
}

type c38Override struct {
	body    []byte
	deleted bool
	// lie: report this object size instead of len(body).
	hasLie bool
	lie    uint64
	// endless: the body never ends (zeros) whatever the reported size.
	endless bool
}

func c38NewStore() *c38Store {
	return &c38Store{base: map[string][]byte{}, over: map[string]c38Override{}}
}

// view returns a store sharing s's (from now on read-only) base objects with a
// private mutation layer.
func (s *c38Store) view() *c38Store {
	return &c38Store{base: s.base, over: map[string]c38Override{}}
}

func (s *c38Store) reset() {
	s.mu.Lock()
	s.over = map[string]c38Override{}
	s.mu.Unlock()
}

func (s *c38Store) lookup(key string) ([]byte, c38Override, bool) {
	if o, ok := s.over[key]; ok {
		if o.deleted {
			return nil, o, false
		}
		return o.body, o, true
	}
	b, ok := s.base[key]
	return b, c38Override{}, ok
}

// get returns a copy of the currently visible body.
func (s *c38Store) get(key string) ([]byte, bool) {
	s.mu.Lock()
	defer s.mu.Unlock()
	b, _, ok := s.lookup(key)
	if !ok {
		return nil, false
	}
	return append([]byte(nil), b...), true
}

func (s *c38Store) setOver(key string, body []byte) {
	s.mu.Lock()
	s.over[key] = c38Override{body: body}
	s.mu.Unlock()
}

func (s *c38Store) delOver(key string) {
	s.mu.Lock()
	s.over[key] = c38Override{deleted: true}
	s.mu.Unlock()
}

func (s *c38Store) lieOver(key string, reported uint64) {
	s.mu.Lock()
	b, _, _ := s.lookup(key)
	s.over[key] = c38Override{body: b, hasLie: true, lie: reported}
	s.mu.Unlock()
}

func (s *c38Store) endlessOver(key string, reported uint64) {
	s.mu.Lock()
	s.over[key] = c38Override{hasLie: true, lie: reported, endless: true}
	s.mu.Unlock()
}

func (s *c38Store) keys(prefix string) []string {
	s.mu.Lock()
	defer s.mu.Unlock()
	var out []string
	for k := range s.base {
		if strings.HasPrefix(k, prefix) {
			if o, ok := s.over[k]; ok && o.deleted {
				continue
			}
			out = append(out, k)
		}
	}
	for k, o := range s.over {
		if _, inBase := s.base[k]; !inBase && !o.deleted && strings.HasPrefix(k, prefix) {
			out = append(out, k)
		}
	}
	sort.Strings(out)
	return out
}

func (s *c38Store) Put(_ context.Context, object backup.PutObject) error {
	body, err := io.ReadAll(object.Body)
	if err != nil {
		return err
	}
	if uint64(len(body)) != object.ExpectedBytes {
		return errors.New("c38store: size mismatch")
	}
	s.mu.Lock()
	defer s.mu.Unlock()
	if object.IfAbsent {
		if _, _, exists := s.lookup(object.Key); exists {
			return backup.ErrObjectExists
		}
	}
	delete(s.over, object.Key)
	s.base[object.Key] = append([]byte(nil), body...)
	return nil
}

type c38CountingReader struct {
	src io.Reader
	n   *atomic.Uint64
}

func (r *c38CountingReader) Read(p []byte) (int, error) {
	n, err := r.src.Read(p)
	r.n.Add(uint64(n))
	return n, err
}

type c38Zeros struct{}

func (c38Zeros) Read(p []byte) (int, error) {
	for i := range p {
		p[i] = 0
	}
	return len(p), nil
}

func (s *c38Store) Open(_ context.Context, key string) (io.ReadCloser, backup.ArchiveObject, error) {
	s.opens.Add(1)
	s.mu.Lock()
	defer s.mu.Unlock()
	body, o, exists := s.lookup(key)
	if !exists {
		return nil, backup.ArchiveObject{}, backup.ErrObjectNotFound
	}
	size := uint64(len(body))
	if o.hasLie {
		size = o.lie
	}
	var src io.Reader = bytes.NewReader(body)
	if o.endless {
		src = c38Zeros{}
	}
	return io.NopCloser(&c38CountingReader{src: src, n: &s.bytesRead}),
		backup.ArchiveObject{Key: key, Bytes: size}, nil
}

func (s *c38Store) List(_ context.Context, prefix string) ([]backup.ArchiveObject, error) {
	keys := s.keys(prefix)
	s.mu.Lock()
	defer s.mu.Unlock()
	out := make([]backup.ArchiveObject, 0, len(keys))
	for _, k := range keys {
		b, _, _ := s.lookup(k)
		out = append(out, backup.ArchiveObject{Key: k, Bytes: uint64(len(b))})
	}
	return out, nil
}

func (s *c38Store) Delete(_ context.Context, key string) error {
	s.mu.Lock()
	defer s.mu.Unlock()
	delete(s.over, key)
	delete(s.base, key)
	return nil
}

func (s *c38Store) DeletePrefix(_ context.Context, prefix string) error {
	s.mu.Lock()
	defer s.mu.Unlock()
	for k := range s.base {
		if strings.HasPrefix(k, prefix) {
			delete(s.base, k)
		}
	}
	for k := range s.over {
		if strings.HasPrefix(k, prefix) {
			delete(s.over, k)
		}
	}
	return nil
}
