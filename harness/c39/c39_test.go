//go:build verif

// C39 — Hash-slot migration neither loses nor duplicates metadata writes.
//
// Conservation monitor over two real slot state machines (pkg/slot/fsm) on two
// real metadata DBs (pkg/db/meta).  One case = one migration of hash slot h
// from physical slot S(11) to physical slot T(22), driven through
//
//	A  pre-migration writes
//	B  delta targets + forwarder installed on S          (BEFORE the snapshot)
//	C  pinned snapshot opened / written-around / read / imported on T
//	D  delta forwarding (captures + durable outbox), acks
//	E  enter fence, drain the outbox through FenceIndex, ack
//	F  switch ownership (four runtime updates in a random order)
//	G  outbox cleanup
//	H  post-switch writes on T, replays of every delta, restarts
//
// while a PRNG stream of uniquely keyed metadata writes for h, for a control
// hash slot c (also owned by S) and multi-hash-slot commands spanning both is
// applied.  The production driver of these calls is not part of this tree
// (docs name pkg/cluster/hashslot_migration.go, which does not exist here);
// the order is taken from DESIGN.md / the fsm tests / the protocol-hardening
// plan in docs/superpowers/plans/2026-04-28-distributed-risk-remediation.md:
// outbox rows are replayed to the target as apply_delta(source, index, h,
// data), acknowledged on the source afterwards, and the switch waits until
// every row up to FenceIndex is acknowledged.
//
// Statement clauses and where they are asserted:
//
//	(1) every write ACCEPTED for h is present exactly once in the target after
//	    the switch: every row written by a command S answered with a success
//	    result must read back on T with the value it has on S (typed getters),
//	    and the business content of h (pinned backup stream) must be
//	    byte-identical on S and T once the outbox is drained.  Each write has
//	    its own key, so reordered delivery cannot legitimately change content.
//	(2) deltas are applied once even when replayed: after the switch T takes
//	    newer writes on keys that earlier deltas wrote (token change, subscriber
//	    removal with a visible subscriber count, flag change); then every delta
//	    ever emitted is replayed (reordered, duplicated, batched, after a
//	    target restart): the full h key space of T must stay byte-identical and
//	    every row must keep its post-switch value.  In the snapshot/delta
//	    overlap window only presence and final value are asserted.
//	    A delta whose batch was aborted (hard error of a later command in the
//	    same ApplyBatch) was never applied; its redelivery must apply.
//	(3) ordinary writes for h are refused by a slot that does not own it:
//	    ApplyBatch must return an error and the row must not appear.
//	Writes answered hash_slot_fenced / refused must appear nowhere unless they
//	are re-submitted to the new owner; the outbox must be empty after the acks.
//
//	(4) added after a seeded-bug escape: deltas are delivered from BOTH transports
//	    (forwarder captures and ListHashSlotMigrationOutbox rows), each copy
//	    under the hash slot that transport carries; every capture must agree
//	    with its outbox row (source index, hash slot, payload); no row of a
//	    non-migrating hash slot (control slot, legacy envelope slot 0) may exist
//	    in the target.  Every command family with a per-item hash slot (47, 59,
//	    63, 64, 65) is proposed under the migrating and under the control
//	    envelope hash slot in every phase, with items for both; the conservation
//	    oracle is per item.  Command 65 (task completion) is the only write that
//	    shares keys with another one (its admission 63): its delta is first
//	    delivered after the admission's delta.
//
// Unit cmd59 runs the same monitor with command-59 batches (create runtime
// metadata) that carry items for h AND c: command 59 has no per-hash-slot
// filter for apply_delta in this tree, so the target stores the control
// slot's items too.  Unit main keeps command 59 to items for h (under either
// envelope) so that it stays a regression monitor.
//
// Deliberately NOT asserted: anything about timing; runtime-metadata rows
// written before the delta targets exist when the pinned (backup) stream is the
// snapshot (that stream excludes them by design; such writes are generated only
// with the full export or once the outbox covers them).
package c39_test

import (
	"bytes"
	"context"
	"encoding/binary"
	"errors"
	"fmt"
	"io"
	"math/rand/v2"
	"os"
	"path/filepath"
	"sort"
	"strings"
	"testing"

	metadb "github.com/WuKongIM/WuKongIM/pkg/db/meta"
	"github.com/WuKongIM/WuKongIM/pkg/protocol/channelid"
	"github.com/WuKongIM/WuKongIM/pkg/slot/fsm"
	"github.com/WuKongIM/WuKongIM/pkg/slot/multiraft"
	"github.com/WuKongIM/WuKongIM/pkg/verifkit"
)

const (
	c39SrcSlot uint64 = 11
	c39TgtSlot uint64 = 22
)

// c39Machine is the exported method set of the unexported fsm state machine.
type c39Machine interface {
	multiraft.BatchStateMachine
	UpdateOwnedHashSlots([]uint16)
	UpdateOutgoingDeltaTargets(map[uint16]multiraft.SlotID)
	UpdateIncomingDeltaHashSlots([]uint16)
	SetDeltaForwarder(func(context.Context, multiraft.SlotID, multiraft.Command) error)
	OpenHashSlotSnapshot(context.Context, uint16) (io.ReadCloser, error)
	ExportHashSlotSnapshot(context.Context, uint16) (metadb.SlotSnapshot, error)
	ImportHashSlotSnapshot(context.Context, metadb.SlotSnapshot) error
	ListHashSlotMigrationOutbox(context.Context, uint16, uint64, uint64, uint64, int) ([]metadb.HashSlotMigrationOutboxRow, error)
	LoadHashSlotMigrationState(context.Context, uint16) (metadb.HashSlotMigrationState, error)
	AckHashSlotMigrationOutbox(context.Context, uint16, uint64, uint64, uint64) error
	CleanupHashSlotMigrationOutbox(context.Context, uint16, uint64, uint64, uint64) error
}

type c39Side struct {
	name  string
	slot  uint64
	path  string
	db    *metadb.DB
	sm    c39Machine
	owned map[uint16]bool
	next  uint64 // next raft index of this physical slot
	// legacy: built with fsm.NewStateMachine (one-to-one slot/hash-slot default,
	// envelope hash slot 0 = "the slot's own hash slot"), ownership pushed afterwards.
	legacy bool
}

func (s *c39Side) ownedList() []uint16 {
	out := make([]uint16, 0, len(s.owned))
	for hs, ok := range s.owned {
		if ok {
			out = append(out, hs)
		}
	}
	sort.Slice(out, func(i, j int) bool { return out[i] < out[j] })
	return out
}

func (s *c39Side) open() error {
	db, err := metadb.Open(s.path)
	if err != nil {
		return err
	}
	var sm multiraft.StateMachine
	if s.legacy {
		sm, err = fsm.NewStateMachine(db, s.slot)
	} else {
		sm, err = fsm.NewStateMachineWithHashSlots(db, s.slot, s.ownedList())
	}
	if err != nil {
		_ = db.Close()
		return err
	}
	m, ok := sm.(c39Machine)
	if !ok {
		_ = db.Close()
		return fmt.Errorf("state machine %T lacks the migration method set", sm)
	}
	if s.legacy {
		m.UpdateOwnedHashSlots(s.ownedList())
	}
	s.db, s.sm = db, m
	return nil
}

func (s *c39Side) close() {
	if s.db != nil {
		_ = s.db.Close()
		s.db = nil
	}
}

// c39Row is one uniquely keyed logical row with a typed reader.
type c39Row struct {
	Key  string
	Fam  string
	Slot uint16
	read func(ctx context.Context, db *metadb.DB) (string, bool, error)
}

type c39Cmd struct {
	ID       int
	Fam      string
	Envelope uint16
	Data     []byte
	Rows     []*c39Row
	Slots    map[uint16]bool
	Index    uint64 // source raft index the command was applied at
	// MayDelete: an accepted command may leave some of its rows absent (task completion).
	MayDelete bool
	// Dep: command (same keys) whose delta has to reach the target first.
	Dep *c39Cmd
	// person-directory admission items (for a later completion command)
	admitItems []fsm.PersonDirectoryCompletionBatchItem
}

// c39Delta is one forwardable delta as one transport saw it.
type c39Delta struct {
	HashSlot uint16
	Data     []byte
}

// c39Pend names one deliverable copy of a delta: source index + transport
// ('F' = forwarder capture, 'O' = durable outbox row).
type c39Pend struct {
	Index uint64
	Src   byte
}

type c39Case struct {
	r    *verifkit.Run
	rng  *rand.Rand
	ctx  context.Context
	idx  int
	dir  string
	S, T *c39Side
	h, c uint16
	t0   uint16
	seq  int

	expS    map[string]string // row key -> value on S after the accepted write
	expT    map[string]string // row key (slot h) -> value T must hold
	rows    map[string]*c39Row
	absentS map[string]*c39Row
	absentT map[string]*c39Row
	fenced  []*c39Cmd // commands answered fenced (candidates for re-submission)

	captures  map[uint64]c39Delta // forwarder captures by source index (hash slot as forwarded)
	outbox    map[uint64]c39Delta // every outbox row ever listed, by source index
	checked   map[uint64]bool     // captures already cross-checked against their outbox row
	deps      map[uint64]uint64   // source index -> source index that must be delivered first
	admits    []*c39Cmd           // accepted admissions not yet completed
	pending   map[c39Pend]bool
	legacy    bool
	rt59Both  bool // command 59 batches carry items for h AND c
	sigSeen   map[string]int // shared by all cases of the run
	delivered map[uint64]int
	acked     map[uint64]bool
	lastDeliv uint64
	targets   bool // delta targets installed
	pinned    bool // snapshot opened
	imported  bool
	fenceIdx  uint64
	switched  bool
	dropFwd   float64
	failFwd   float64

	// shape of the case for the fingerprint
	nPostPin, nDup, nInv, nPoison, nRestartT, nRestartS, nMulti, nV2, nReplay, nFencedW, nProbe int
	fenceInBatch                                                                              bool
	snapMethod, switchOrder                                                                    string
	dead                                                                                       bool
}

func (k *c39Case) viol(sig string, w map[string]any) {
	if w == nil {
		w = map[string]any{}
	}
	w["case"] = k.idx
	w["h"], w["c"] = k.h, k.c
	k.sigSeen[sig]++
	if k.sigSeen[sig] > 2 { // the violation list is bounded: keep room for other signatures
		k.r.Count("violations_repeated."+sig, 1)
		return
	}
	k.r.Violation(sig, w)
}

func (k *c39Case) inconclusive(msg string) {
	k.dead = true
	k.r.Inconclusive(fmt.Sprintf("case %d: %s", k.idx, msg))
}

// ---------------------------------------------------------------------------
// write generators (each write touches keys nobody else touches)

func c39NotFound(err error) bool { return errors.Is(err, metadb.ErrNotFound) }

func (k *c39Case) row(fam, name string, slot uint16, read func(context.Context, *metadb.DB) (string, bool, error)) *c39Row {
	key := fmt.Sprintf("%s:%s@%d", fam, name, slot)
	if r, ok := k.rows[key]; ok {
		return r
	}
	r := &c39Row{Key: key, Fam: fam, Slot: slot, read: read}
	k.rows[key] = r
	return r
}

func (k *c39Case) userRow(uid string, slot uint16) *c39Row {
	return k.row("user", uid, slot, func(ctx context.Context, db *metadb.DB) (string, bool, error) {
		u, err := db.ForHashSlot(slot).GetUser(ctx, uid)
		if c39NotFound(err) {
			return "", false, nil
		}
		return fmt.Sprintf("%+v", u), err == nil, err
	})
}

func (k *c39Case) deviceRow(uid string, flag int64, slot uint16) *c39Row {
	return k.row("device", fmt.Sprintf("%s/%d", uid, flag), slot, func(ctx context.Context, db *metadb.DB) (string, bool, error) {
		d, err := db.ForHashSlot(slot).GetDevice(ctx, uid, flag)
		if c39NotFound(err) {
			return "", false, nil
		}
		return fmt.Sprintf("%+v", d), err == nil, err
	})
}

func (k *c39Case) channelRow(id string, slot uint16) *c39Row { return k.channelRowT(id, 2, slot) }

func (k *c39Case) channelRowT(id string, ctype int64, slot uint16) *c39Row {
	fam := "channel"
	if ctype != 2 {
		fam = "personchannel"
	}
	return k.row(fam, id, slot, func(ctx context.Context, db *metadb.DB) (string, bool, error) {
		ch, err := db.ForHashSlot(slot).GetChannel(ctx, id, ctype)
		if c39NotFound(err) {
			return "", false, nil
		}
		return fmt.Sprintf("%+v", ch), err == nil, err
	})
}

// subsRow renders the subscriber set together with the durable subscriber
// counter of the channel row (a double-applied add after a remove is visible
// in both).
func (k *c39Case) subsRow(id string, slot uint16) *c39Row {
	return k.row("subs", id, slot, func(ctx context.Context, db *metadb.DB) (string, bool, error) {
		st := db.ForHashSlot(slot)
		uids, err := st.ListSubscribersSnapshot(ctx, id, 2)
		if err != nil {
			return "", false, err
		}
		ch, err := st.GetChannel(ctx, id, 2)
		if c39NotFound(err) {
			if len(uids) == 0 {
				return "", false, nil
			}
			return fmt.Sprintf("uids=%v nochannel", uids), true, nil
		}
		if err != nil {
			return "", false, err
		}
		return fmt.Sprintf("uids=%v count=%d ver=%d", uids, ch.SubscriberCount, ch.SubscriberMutationVersion), true, nil
	})
}

func (k *c39Case) memberRow(uid, ch string, slot uint16) *c39Row { return k.memberRowT(uid, ch, 2, slot) }

func (k *c39Case) rtmetaRow(id string, ctype int64, slot uint16) *c39Row {
	fam := "rtmeta"
	if ctype != 2 {
		fam = "personrtmeta"
	}
	return k.row(fam, fmt.Sprintf("%s/%d", id, ctype), slot, func(ctx context.Context, db *metadb.DB) (string, bool, error) {
		m, err := db.ForHashSlot(slot).GetChannelRuntimeMeta(ctx, id, ctype)
		if c39NotFound(err) {
			return "", false, nil
		}
		return fmt.Sprintf("%+v", m), err == nil, err
	})
}

func (k *c39Case) pdtaskRow(id string, slot uint16) *c39Row {
	return k.row("pdtask", id, slot, func(ctx context.Context, db *metadb.DB) (string, bool, error) {
		t, ok, err := db.ForHashSlot(slot).GetPersonDirectoryTask(ctx, id, 1)
		if err != nil || !ok {
			return "", false, err
		}
		return fmt.Sprintf("%+v", t), true, nil
	})
}

func (k *c39Case) memberRowT(uid, ch string, ctype int64, slot uint16) *c39Row {
	fam := "member"
	if ctype != 2 {
		fam = "personmember"
	}
	return k.row(fam, uid+"/"+ch, slot, func(ctx context.Context, db *metadb.DB) (string, bool, error) {
		m, err := db.ForHashSlot(slot).GetUserChannelMembership(ctx, uid, ch, ctype)
		if c39NotFound(err) {
			return "", false, nil
		}
		return fmt.Sprintf("%+v", m), err == nil, err
	})
}

func (k *c39Case) latestRow(ch string, slot uint16) *c39Row {
	return k.row("latest", ch, slot, func(ctx context.Context, db *metadb.DB) (string, bool, error) {
		l, err := db.ForHashSlot(slot).GetChannelLatest(ctx, ch, 2)
		if c39NotFound(err) {
			return "", false, nil
		}
		return fmt.Sprintf("%+v", l), err == nil, err
	})
}

func (k *c39Case) pluginRow(uid string, slot uint16) *c39Row {
	return k.row("plugin", uid, slot, func(ctx context.Context, db *metadb.DB) (string, bool, error) {
		bs, err := db.ForHashSlot(slot).ListPluginBindingsByUID(ctx, uid)
		if err != nil || len(bs) == 0 {
			return "", false, err
		}
		return fmt.Sprintf("%+v", bs), true, nil
	})
}

var c39Single = []string{"user", "device", "channel", "subs", "member", "latest", "plugin"}

// every command family that carries a per-item hash slot (commands 47, 64, 59, 63;
// 65 = completion is generated from an accepted admission, see genComplete)
var c39Multi = []string{"latestbatch", "memberbatch", "rtmetabatch", "admitbatch"}

// rtmetaAllowed: runtime-metadata rows are deliberately not part of the pinned
// (backup) hash-slot stream; with that snapshot kind they can only reach the
// target through deltas, i.e. once the delta targets are installed.
func (k *c39Case) rtmetaAllowed() bool { return k.snapMethod == "export" || k.targets }

func (k *c39Case) pickFamily() string {
	if k.rng.IntN(5) < 3 {
		return c39Single[k.rng.IntN(len(c39Single))]
	}
	return k.pickMulti()
}

func (k *c39Case) pickMulti() string {
	fam := c39Multi[k.rng.IntN(len(c39Multi))]
	if k.rt59Both && k.rng.IntN(2) == 0 {
		fam = "rtmetabatch"
	}
	if (fam == "rtmetabatch" || fam == "admitbatch") && !k.rtmetaAllowed() {
		fam = []string{"latestbatch", "memberbatch"}[k.rng.IntN(2)]
	}
	return fam
}

// itemSlots spreads n batch items over h and c (both always present).
func (k *c39Case) itemSlots(n int) []uint16 {
	out := make([]uint16, n)
	for i := range out {
		switch {
		case i == 0:
			out[i] = k.h
		case i == 1:
			out[i] = k.c
		default:
			out[i] = []uint16{k.h, k.c}[k.rng.IntN(2)]
		}
	}
	k.rng.Shuffle(n, func(a, b int) { out[a], out[b] = out[b], out[a] })
	return out
}

func c39RuntimeMeta(id string, ctype int64, n int) metadb.ChannelRuntimeMeta {
	return metadb.ChannelRuntimeMeta{ChannelID: id, ChannelType: ctype, ChannelEpoch: uint64(1 + n%3), LeaderEpoch: 1,
		Replicas: []uint64{1, 2}, ISR: []uint64{1}, Leader: 1, MinISR: 1}
}

// genWrite builds a fresh uniquely keyed write whose envelope hash slot is hs.
// The multi-hash-slot families always carry items for h AND c, whatever hs is.
func (k *c39Case) genWrite(hs uint16, forceFam string) *c39Cmd {
	k.seq++
	id := k.seq
	m := fmt.Sprintf("k%d-%d", k.idx, id)
	fam := forceFam
	if fam == "" {
		fam = k.pickFamily()
	}
	cmd := &c39Cmd{ID: id, Fam: fam, Envelope: hs, Slots: map[uint16]bool{hs: true}}
	switch fam {
	case "user":
		u := metadb.User{UID: "u-" + m, Token: "tok-" + m, DeviceFlag: int64(k.rng.IntN(3)), DeviceLevel: int64(k.rng.IntN(2))}
		cmd.Data = fsm.EncodeUpsertUserCommand(u)
		cmd.Rows = []*c39Row{k.userRow(u.UID, hs)}
	case "device":
		d := metadb.Device{UID: "d-" + m, DeviceFlag: int64(1 + k.rng.IntN(3)), Token: "dtok-" + m, DeviceLevel: 1}
		cmd.Data = fsm.EncodeUpsertDeviceCommand(d)
		cmd.Rows = []*c39Row{k.deviceRow(d.UID, d.DeviceFlag, hs)}
	case "channel":
		ch := metadb.Channel{ChannelID: "c-" + m, ChannelType: 2, Ban: int64(k.rng.IntN(2)), Large: int64(k.rng.IntN(2))}
		cmd.Data = fsm.EncodeUpsertChannelCommand(ch)
		cmd.Rows = []*c39Row{k.channelRow(ch.ChannelID, hs)}
	case "subs":
		n := 2 + k.rng.IntN(3)
		uids := make([]string, n)
		for i := range uids {
			uids[i] = fmt.Sprintf("s%d-%s", i, m)
		}
		cmd.Data = fsm.EncodeAddSubscribersCommand("g-"+m, 2, uids, uint64(1+k.rng.IntN(5)))
		cmd.Rows = []*c39Row{k.subsRow("g-"+m, hs)}
	case "member":
		mem := metadb.UserChannelMembership{UID: "m-" + m, ChannelID: "mc-" + m, ChannelType: 2,
			JoinSeq: uint64(1 + k.rng.IntN(9)), ReadSeq: uint64(k.rng.IntN(5)), SourceVersion: uint64(1 + k.rng.IntN(4)), UpdatedAt: int64(100 + id)}
		cmd.Data = fsm.EncodeUpsertUserChannelMembershipsCommand([]metadb.UserChannelMembership{mem})
		cmd.Rows = []*c39Row{k.memberRow(mem.UID, mem.ChannelID, hs)}
	case "latest":
		l := metadb.ChannelLatest{ChannelID: "l-" + m, ChannelType: 2, LastMessageID: uint64(1000 + id), LastMessageSeq: uint64(1 + k.rng.IntN(50)),
			LastAt: int64(500 + id), FromUID: "f-" + m, ClientMsgNo: "cmn-" + m, Payload: []byte("p-" + m), UpdatedAt: int64(600 + id)}
		cmd.Data = fsm.EncodeUpsertChannelLatestCommand(l)
		cmd.Rows = []*c39Row{k.latestRow(l.ChannelID, hs)}
	case "plugin":
		b := metadb.PluginUserBinding{UID: "pu-" + m, PluginNo: "plg-" + m, CreatedAtMS: int64(10 + id), UpdatedAtMS: int64(20 + id)}
		cmd.Data = fsm.EncodeBindPluginUserCommand(b)
		cmd.Rows = []*c39Row{k.pluginRow(b.UID, hs)}
	case "latestbatch":
		// multi-hash-slot command: items for h and for c in one Raft entry.
		n := 2 + k.rng.IntN(3)
		items := make([]fsm.ChannelLatestBatchItem, 0, n)
		slots := []uint16{k.h, k.c}
		for i := 0; i < n; i++ {
			s := slots[i%2]
			if i >= 2 {
				s = slots[k.rng.IntN(2)]
			}
			chID := fmt.Sprintf("lb%d-%s", i, m)
			items = append(items, fsm.ChannelLatestBatchItem{HashSlot: s, Latest: metadb.ChannelLatest{ChannelID: chID, ChannelType: 2,
				LastMessageID: uint64(2000 + id*8 + i), LastMessageSeq: uint64(1 + k.rng.IntN(50)), LastAt: int64(700 + id), FromUID: "f-" + m,
				ClientMsgNo: "cmn-" + m, Payload: []byte("bp-" + m), UpdatedAt: int64(800 + id)}})
			cmd.Rows = append(cmd.Rows, k.latestRow(chID, s))
			cmd.Slots[s] = true
		}
		cmd.Data = fsm.EncodeUpsertChannelLatestBatchCommand(items)
	case "memberbatch":
		// command 64: create-if-absent person memberships, one UID hash slot per item
		slots := k.itemSlots(2 + k.rng.IntN(3))
		items := make([]fsm.UserChannelMembershipBatchItem, 0, len(slots))
		for i, s := range slots {
			uid := fmt.Sprintf("pa%d-%s", i, m)
			ch := channelid.EncodePersonChannel(uid, fmt.Sprintf("pb%d-%s", i, m))
			items = append(items, fsm.UserChannelMembershipBatchItem{HashSlot: s, Membership: metadb.UserChannelMembership{UID: uid, ChannelID: ch, ChannelType: 1,
				JoinSeq: uint64(1 + k.rng.IntN(9)), SourceVersion: 1, UpdatedAt: int64(900 + id)}})
			cmd.Rows = append(cmd.Rows, k.memberRowT(uid, ch, 1, s))
			cmd.Slots[s] = true
		}
		var err error
		if cmd.Data, err = fsm.EncodeEnsureUserChannelMembershipBatchCommandChecked(items); err != nil {
			k.inconclusive("encode memberbatch: " + err.Error())
		}
	case "rtmetabatch":
		// command 59: create-only channel runtime metadata, one channel hash slot per item
		slots := k.itemSlots(2 + k.rng.IntN(3))
		if !k.rt59Both {
			// unit main: command 59 carries items for h only (under either envelope);
			// the h+c variant lives in unit cmd59 (see TestVerifC39Cmd59)
			for i := range slots {
				slots[i] = k.h
			}
		}
		items := make([]fsm.CreateChannelRuntimeMetaBatchItem, 0, len(slots))
		for i, s := range slots {
			ch := fmt.Sprintf("rm%d-%s", i, m)
			items = append(items, fsm.CreateChannelRuntimeMetaBatchItem{HashSlot: s, Meta: c39RuntimeMeta(ch, 2, id+i)})
			cmd.Rows = append(cmd.Rows, k.rtmetaRow(ch, 2, s))
			cmd.Slots[s] = true
		}
		var err error
		if cmd.Data, err = fsm.EncodeCreateChannelRuntimeMetaBatchCommandChecked(items); err != nil {
			k.inconclusive("encode rtmetabatch: " + err.Error())
		}
	case "admitbatch":
		// command 63: person-directory task admission + create-only runtime metadata
		slots := k.itemSlots(2 + k.rng.IntN(2))
		items := make([]fsm.PersonDirectoryAdmissionBatchItem, 0, len(slots))
		for i, s := range slots {
			ch := channelid.EncodePersonChannel(fmt.Sprintf("qa%d-%s", i, m), fmt.Sprintf("qb%d-%s", i, m))
			items = append(items, fsm.PersonDirectoryAdmissionBatchItem{HashSlot: s,
				Task:        metadb.PersonDirectoryTask{ChannelID: ch, ChannelType: 1, CommittedTail: uint64(1 + i), CreatedAt: int64(1000 + id)},
				RuntimeMeta: c39RuntimeMeta(ch, 1, id+i)})
			cmd.Rows = append(cmd.Rows, k.rtmetaRow(ch, 1, s), k.pdtaskRow(ch, s), k.channelRowT(ch, 1, s))
			cmd.admitItems = append(cmd.admitItems, fsm.PersonDirectoryCompletionBatchItem{HashSlot: s, ChannelID: ch, ChannelType: 1, Generation: 1})
			cmd.Slots[s] = true
		}
		var err error
		if cmd.Data, err = fsm.EncodeAdmitPersonDirectoryTaskBatchCommandChecked(items); err != nil {
			k.inconclusive("encode admitbatch: " + err.Error())
		}
	}
	return cmd
}

// genComplete builds command 65 (task completion: deletes the task rows, marks
// the channels ready) for an accepted admission. It is the only write that is
// not on a key of its own: its delta is delivered after the admission's delta.
func (k *c39Case) genComplete(admit *c39Cmd, envelope uint16) *c39Cmd {
	k.seq++
	cmd := &c39Cmd{ID: k.seq, Fam: "completebatch", Envelope: envelope, Slots: map[uint16]bool{envelope: true}, MayDelete: true, Dep: admit}
	for _, it := range admit.admitItems {
		cmd.Rows = append(cmd.Rows, k.pdtaskRow(it.ChannelID, it.HashSlot), k.channelRowT(it.ChannelID, 1, it.HashSlot))
		cmd.Slots[it.HashSlot] = true
	}
	var err error
	if cmd.Data, err = fsm.EncodeCompletePersonDirectoryTaskBatchCommandChecked(admit.admitItems); err != nil {
		k.inconclusive("encode completebatch: " + err.Error())
	}
	return cmd
}

func (c *c39Cmd) touches(hs uint16) bool { return c.Slots[hs] }

// ---------------------------------------------------------------------------
// applying ordinary commands

func c39Outcome(res []byte) string {
	switch string(res) {
	case fsm.ApplyResultHashSlotFenced:
		return "fenced"
	case fsm.ApplyResultStaleMeta:
		return "stale"
	}
	return "accepted"
}

func (k *c39Case) phase() string {
	switch {
	case k.switched:
		return "H-switched"
	case k.fenceIdx != 0:
		return "E-fenced"
	case k.imported:
		return "D-delta"
	case k.pinned:
		return "C-snapshot"
	case k.targets:
		return "B-targets"
	}
	return "A-pre"
}

func (k *c39Case) readRow(side *c39Side, row *c39Row) (string, bool) {
	v, ok, err := row.read(k.ctx, side.db)
	if err != nil {
		k.inconclusive(fmt.Sprintf("read %s on %s: %v", row.Key, side.name, err))
		return "", false
	}
	return v, ok
}

// markRefused records that the fresh rows of cmd must not exist on either side.
func (k *c39Case) markRefused(side *c39Side, cmd *c39Cmd, why string) {
	for _, row := range cmd.Rows {
		if _, ok := k.expS[row.Key]; !ok {
			k.absentS[row.Key] = row
		}
		if _, ok := k.expT[row.Key]; !ok {
			k.absentT[row.Key] = row
		}
		// immediate check on the refusing side: no row change
		v, present := k.readRow(side, row)
		if !present {
			v = c39Absent
		}
		exp, had := k.expS[row.Key]
		if side == k.T {
			exp, had = k.expT[row.Key]
		}
		if !had {
			exp = c39Absent
		}
		if exp != v {
			k.viol("refused-write-changed-row:"+cmd.Fam+":"+side.name, map[string]any{"why": why, "row": row.Key, "value": v, "before": exp, "phase": k.phase()})
		}
	}
}

// apply submits ordinary commands as one ApplyBatch to side.
func (k *c39Case) apply(side *c39Side, cmds []*c39Cmd) {
	if k.dead {
		return
	}
	batch := make([]multiraft.Command, 0, len(cmds))
	for _, c := range cmds {
		side.next++
		c.Index = side.next
		env := c.Envelope
		if side.legacy && side.owned[k.h] && env == k.h && k.rng.IntN(2) == 0 {
			env = 0 // legacy envelope: "this slot's own hash slot"
			k.r.Count("legacy.envelope_zero_commands", 1)
		}
		batch = append(batch, multiraft.Command{SlotID: multiraft.SlotID(side.slot), HashSlot: env, Index: side.next, Term: 1, Data: c.Data})
	}
	if side == k.S {
		defer k.crossCheck()
	}
	mustRefuse := ""
	for _, c := range cmds {
		for hs := range c.Slots {
			if !side.owned[hs] {
				mustRefuse = fmt.Sprintf("%s does not own hash slot %d", side.name, hs)
			}
		}
	}
	var (
		res [][]byte
		err error
	)
	if k.r.Guard("ApplyBatch:"+side.name, map[string]any{"case": k.idx, "phase": k.phase()}, func() { res, err = side.sm.ApplyBatch(k.ctx, batch) }) {
		k.dead = true
		return
	}
	ph := k.phase()
	if err != nil {
		k.r.Count("ordinary."+side.name+".refused_batches", 1)
		for _, c := range cmds {
			k.r.Count("write."+ph+"."+side.name+".refused", 1)
			k.markRefused(side, c, "batch error: "+err.Error())
		}
		if mustRefuse == "" {
			// an owner refused an ordinary batch: not promised either way, keep as evidence
			k.r.Count("ordinary."+side.name+".owner_refused", 1)
			k.inconclusive(fmt.Sprintf("owner %s refused an ordinary batch in phase %s: %v", side.name, ph, err))
		} else {
			k.nProbe++
			k.r.Count("nonowner.refused", 1)
		}
		return
	}
	if mustRefuse != "" {
		fams := []string{}
		for _, c := range cmds {
			fams = append(fams, c.Fam)
		}
		k.viol("non-owner-accepted:"+side.name, map[string]any{"why": mustRefuse, "phase": ph, "families": fams, "results": c39Strs(res)})
		return // the rows are not booked as expected content: one defect, one signature
	}
	for i, c := range cmds {
		out := c39Outcome(res[i])
		k.r.Count("write."+ph+"."+side.name+"."+out, 1)
		switch out {
		case "accepted":
			for _, row := range c.Rows {
				v, present := k.readRow(side, row)
				if k.dead {
					return
				}
				if !present {
					if !c.MayDelete {
						k.inconclusive(fmt.Sprintf("accepted %s write not visible on %s (row %s)", c.Fam, side.name, row.Key))
						return
					}
					v = c39Absent
				}
				if side == k.S {
					k.expS[row.Key] = v
					delete(k.absentS, row.Key)
					if row.Slot == k.h {
						k.expT[row.Key] = v
						delete(k.absentT, row.Key)
					}
				} else {
					k.expT[row.Key] = v
					delete(k.absentT, row.Key)
				}
			}
			if len(c.Slots) > 1 {
				k.nMulti++
				k.r.Count("multislot."+c.Fam+".accepted.envelope_"+map[bool]string{true: "migrating", false: "control"}[c.Envelope == k.h]+"."+ph, 1)
			}
			if side == k.S {
				if c.Fam == "admitbatch" {
					k.admits = append(k.admits, c)
				}
				if c.Dep != nil {
					k.deps[c.Index] = c.Dep.Index
					for j, a := range k.admits {
						if a == c.Dep {
							k.admits = append(k.admits[:j], k.admits[j+1:]...)
							break
						}
					}
				}
			}
		case "fenced":
			k.nFencedW++
			k.fenced = append(k.fenced, c)
			k.markRefused(side, c, "fenced")
		default:
			k.markRefused(side, c, out)
		}
	}
}

// c39Absent is the reference value of a row an accepted command removed.
const c39Absent = "<absent>"

func c39Strs(res [][]byte) []string {
	out := make([]string, len(res))
	for i, b := range res {
		s := string(b)
		if len(s) > 24 {
			s = fmt.Sprintf("%q..(%d)", s[:24], len(s))
		}
		out[i] = s
	}
	return out
}

// sourceWrites applies n random writes (h, c, multi) on S in random batches.
func (k *c39Case) sourceWrites(n int) {
	for n > 0 && !k.dead {
		b := 1
		if k.rng.IntN(3) == 0 {
			b = 1 + k.rng.IntN(4)
		}
		if b > n {
			b = n
		}
		cmds := make([]*c39Cmd, 0, b)
		for i := 0; i < b; i++ {
			// the envelope hash slot: the migrating one or the control one, whatever the
			// command carries inside (multi-slot families always carry items for both)
			hs := k.h
			if k.rng.IntN(3) == 0 {
				hs = k.c
			}
			if len(k.admits) > 0 && k.rng.IntN(4) == 0 {
				// complete an admission accepted by an EARLIER batch (command 65)
				cmds = append(cmds, k.genComplete(k.admits[k.rng.IntN(len(k.admits))], hs))
				break // keep it last in its batch: no second writer of the same keys behind it
			}
			cmds = append(cmds, k.genWrite(hs, ""))
		}
		if k.dead {
			return
		}
		if k.pinned && !k.imported || k.imported && k.fenceIdx == 0 {
			for _, c := range cmds {
				if c.touches(k.h) {
					k.nPostPin++
				}
			}
		}
		k.apply(k.S, cmds)
		n -= len(cmds)
	}
}

// probe submits an ordinary write for h to side (which the harness believes
// does not own h, or owns it fenced) and lets apply() judge the answer.
func (k *c39Case) probe(side *c39Side) {
	fam := ""
	if k.rng.IntN(3) == 0 {
		fam = k.pickMulti() // multi-hash-slot family, items for h and c
	}
	envelope := k.h
	if fam != "" && k.rng.IntN(2) == 0 {
		envelope = k.c
	}
	cmds := []*c39Cmd{k.genWrite(envelope, fam)}
	if side == k.S && k.rng.IntN(3) == 0 {
		// a control write in front: the whole batch must be refused when S lost h
		cmds = append([]*c39Cmd{k.genWrite(k.c, "user")}, cmds...)
	}
	if k.dead {
		return
	}
	k.apply(side, cmds)
}

// ---------------------------------------------------------------------------
// delta transport: two sources, forwarder captures and durable outbox rows

func (k *c39Case) forwarder(_ context.Context, target multiraft.SlotID, cmd multiraft.Command) error {
	k.r.Count("forward.calls", 1)
	if uint64(target) != c39TgtSlot {
		k.viol("forwarded-delta-disagrees-with-outbox-row", map[string]any{"what": "forward target slot", "target": uint64(target), "source_index": cmd.Index})
	}
	if _, ok := k.captures[cmd.Index]; !ok {
		// the capture keeps the hash slot exactly as the state machine forwarded it:
		// a real forwarder builds apply_delta(source, index, cmd.HashSlot, cmd.Data) from it
		k.captures[cmd.Index] = c39Delta{HashSlot: cmd.HashSlot, Data: append([]byte(nil), cmd.Data...)}
	}
	if k.rng.Float64() < k.dropFwd {
		k.r.Count("forward.capture_lost", 1) // lost in transit: the outbox must cover it
	} else {
		k.pending[c39Pend{cmd.Index, 'F'}] = true
	}
	if k.rng.Float64() < k.failFwd {
		k.r.Count("forward.returned_error", 1)
		return errors.New("c39: injected forward failure")
	}
	return nil
}

func (k *c39Case) listOutbox() []metadb.HashSlotMigrationOutboxRow {
	rows, err := k.S.sm.ListHashSlotMigrationOutbox(k.ctx, k.h, c39SrcSlot, c39TgtSlot, 0, 4096)
	if err != nil {
		k.inconclusive("ListHashSlotMigrationOutbox: " + err.Error())
		return nil
	}
	for _, row := range rows {
		if _, ok := k.outbox[row.SourceIndex]; !ok {
			k.outbox[row.SourceIndex] = c39Delta{HashSlot: row.HashSlot, Data: append([]byte(nil), row.Data...)}
		}
	}
	return rows
}

// crossCheck runs right after every source apply (no ack can have happened in
// between): every new forwarder capture must have a durable outbox row with
// the same source index, hash slot and payload.
func (k *c39Case) crossCheck() {
	if k.dead || !k.targets || len(k.captures) == len(k.checked) {
		return
	}
	rows := map[uint64]metadb.HashSlotMigrationOutboxRow{}
	for _, row := range k.listOutbox() {
		rows[row.SourceIndex] = row
	}
	if k.dead {
		return
	}
	for idx, cap := range k.captures {
		if k.checked[idx] {
			continue
		}
		k.checked[idx] = true
		k.r.Eval(1)
		k.r.Count("crosscheck.captures", 1)
		row, ok := rows[idx]
		switch {
		case !ok:
			k.viol("forwarded-delta-disagrees-with-outbox-row", map[string]any{"what": "no outbox row for the forwarded source index", "source_index": idx, "forwarded_hash_slot": cap.HashSlot, "phase": k.phase()})
		case row.HashSlot != cap.HashSlot:
			k.viol("forwarded-delta-disagrees-with-outbox-row", map[string]any{"what": "hash slot", "source_index": idx, "forwarded_hash_slot": cap.HashSlot, "outbox_hash_slot": row.HashSlot, "phase": k.phase()})
		case !bytes.Equal(row.Data, cap.Data):
			k.viol("forwarded-delta-disagrees-with-outbox-row", map[string]any{"what": "payload", "source_index": idx, "forwarded_bytes": len(cap.Data), "outbox_bytes": len(row.Data), "phase": k.phase()})
		}
	}
}

// refill makes every un-delivered outbox row (optionally only through max) pending.
func (k *c39Case) refill(max uint64) {
	for _, row := range k.listOutbox() {
		if max != 0 && row.SourceIndex > max {
			continue
		}
		if k.delivered[row.SourceIndex] == 0 {
			k.pending[c39Pend{row.SourceIndex, 'O'}] = true
		}
	}
}

func (k *c39Case) delta(p c39Pend) (c39Delta, bool) {
	if p.Src == 'F' {
		d, ok := k.captures[p.Index]
		return d, ok
	}
	d, ok := k.outbox[p.Index]
	return d, ok
}

// deltaCmd wraps one copy of a delta the way its transport would: the hash
// slot is the one that transport carries, not one the harness knows better.
func (k *c39Case) deltaCmd(p c39Pend) multiraft.Command {
	d, _ := k.delta(p)
	k.T.next++
	return multiraft.Command{SlotID: multiraft.SlotID(c39TgtSlot), HashSlot: d.HashSlot, Index: k.T.next, Term: 1,
		Data: fsm.EncodeApplyDeltaCommand(multiraft.SlotID(c39SrcSlot), p.Index, d.HashSlot, d.Data)}
}

// deliver applies the deltas ps as one ApplyBatch on T. poison appends an
// ordinary write the target must refuse, which aborts the whole batch.
func (k *c39Case) deliver(ps []c39Pend, poison bool, replay bool) {
	if k.dead || len(ps) == 0 {
		return
	}
	batch := make([]multiraft.Command, 0, len(ps)+1)
	for _, p := range ps {
		batch = append(batch, k.deltaCmd(p))
	}
	var pc *c39Cmd
	if poison {
		pc = k.genWrite(k.h, "user")
		k.T.next++
		batch = append(batch, multiraft.Command{SlotID: multiraft.SlotID(c39TgtSlot), HashSlot: k.h, Index: k.T.next, Term: 1, Data: pc.Data})
	}
	var err error
	if k.r.Guard("ApplyBatch:delta", map[string]any{"case": k.idx, "deltas": fmt.Sprint(ps)}, func() { _, err = k.T.sm.ApplyBatch(k.ctx, batch) }) {
		k.dead = true
		return
	}
	if poison {
		k.nPoison++
		k.r.Count("delta.poisoned_batches", 1)
		if err == nil {
			k.viol("non-owner-accepted:target", map[string]any{"why": "ordinary write for h behind deltas in one batch, target does not own h", "phase": k.phase()})
			for _, p := range ps {
				k.noteDelivered(p, replay)
			}
			return
		}
		k.r.Count("nonowner.refused", 1)
		k.markRefused(k.T, pc, "poison behind deltas: "+err.Error())
		return // nothing of the batch may have been applied; deltas stay pending
	}
	if err != nil {
		k.inconclusive(fmt.Sprintf("target refused an apply_delta batch %v: %v", ps, err))
		return
	}
	for _, p := range ps {
		k.noteDelivered(p, replay)
	}
}

func (k *c39Case) noteDelivered(p c39Pend, replay bool) {
	i := p.Index
	k.r.Count("delta.delivered_from."+map[byte]string{'F': "forwarder_capture", 'O': "outbox_row"}[p.Src], 1)
	if k.delivered[i] > 0 {
		k.nDup++
		k.r.Count("delta.duplicate_deliveries", 1)
	} else {
		k.r.Count("delta.first_deliveries", 1)
		if i < k.lastDeliv {
			k.nInv++
			k.r.Count("delta.out_of_order_first_deliveries", 1)
		}
		k.lastDeliv = i
	}
	if replay {
		k.nReplay++
		k.r.Count("delta.post_switch_replays", 1)
	}
	k.delivered[i]++
	delete(k.pending, p)
}

func c39Keys(m map[uint64]bool) []uint64 {
	out := make([]uint64, 0, len(m))
	for i := range m {
		out = append(out, i)
	}
	sort.Slice(out, func(a, b int) bool { return out[a] < out[b] })
	return out
}

// eligible lists the pending copies whose prerequisite delta (completion after
// admission, the only same-key pair) already reached the target or never
// travelled as a delta (it is part of the snapshot then).
func (k *c39Case) eligible() []c39Pend {
	out := make([]c39Pend, 0, len(k.pending))
	for p := range k.pending {
		if dep, ok := k.deps[p.Index]; ok && k.delivered[dep] == 0 {
			_, f := k.captures[dep]
			_, o := k.outbox[dep]
			if f || o {
				continue
			}
		}
		out = append(out, p)
	}
	sort.Slice(out, func(a, b int) bool {
		if out[a].Index != out[b].Index {
			return out[a].Index < out[b].Index
		}
		return out[a].Src < out[b].Src
	})
	return out
}

// anyCopy returns a deliverable copy (random transport) of an already delivered delta.
func (k *c39Case) anyCopy(idx uint64) (c39Pend, bool) {
	var cands []c39Pend
	if _, ok := k.captures[idx]; ok {
		cands = append(cands, c39Pend{idx, 'F'})
	}
	if _, ok := k.outbox[idx]; ok {
		cands = append(cands, c39Pend{idx, 'O'})
	}
	if len(cands) == 0 {
		return c39Pend{}, false
	}
	return cands[k.rng.IntN(len(cands))], true
}

// deliverSome delivers up to n pending deltas in a hostile order.
func (k *c39Case) deliverSome(n int) {
	for ; n > 0 && !k.dead; n-- {
		p := k.eligible()
		if len(p) == 0 {
			return
		}
		pick := func() c39Pend { return p[k.rng.IntN(len(p))] }
		old := func() (c39Pend, bool) {
			d := c39Keys(c39Positive(k.delivered))
			if len(d) == 0 {
				return c39Pend{}, false
			}
			return k.anyCopy(d[k.rng.IntN(len(d))])
		}
		switch x := k.rng.IntN(10); {
		case x < 5: // one random pending delta
			k.deliver([]c39Pend{pick()}, false, false)
		case x < 7: // batch incl. a duplicate inside the batch and an already delivered one
			ps := []c39Pend{pick(), pick()}
			ps = append(ps, ps[0])
			if o, ok := old(); ok {
				ps = append(ps, o)
			}
			k.rng.Shuffle(len(ps), func(i, j int) { ps[i], ps[j] = ps[j], ps[i] })
			k.deliver(ps, false, false)
		case x < 8: // poisoned batch, then nothing: redelivery happens later
			k.deliver([]c39Pend{pick()}, true, false)
		default: // re-deliver something already applied
			if o, ok := old(); ok {
				k.deliver([]c39Pend{o}, false, false)
			}
		}
	}
}

func c39Positive(m map[uint64]int) map[uint64]bool {
	out := map[uint64]bool{}
	for i, n := range m {
		if n > 0 {
			out[i] = true
		}
	}
	return out
}

func (k *c39Case) ackSome(all bool) {
	idxs := c39Keys(c39Positive(k.delivered))
	k.rng.Shuffle(len(idxs), func(i, j int) { idxs[i], idxs[j] = idxs[j], idxs[i] })
	for _, i := range idxs {
		if k.dead {
			return
		}
		if k.acked[i] || (!all && k.rng.IntN(2) == 0) {
			continue
		}
		if k.rng.IntN(2) == 0 {
			k.S.next++
			res, err := k.S.sm.Apply(k.ctx, multiraft.Command{SlotID: multiraft.SlotID(c39SrcSlot), HashSlot: k.h, Index: k.S.next, Term: 1,
				Data: fsm.EncodeAckHashSlotMigrationOutboxCommand(k.h, multiraft.SlotID(c39SrcSlot), multiraft.SlotID(c39TgtSlot), i)})
			if err != nil || string(res) != fsm.ApplyResultOK {
				k.inconclusive(fmt.Sprintf("ack command for %d: res=%q err=%v", i, res, err))
				return
			}
			k.r.Count("ack.replicated", 1)
		} else {
			if err := k.S.sm.AckHashSlotMigrationOutbox(k.ctx, k.h, c39SrcSlot, c39TgtSlot, i); err != nil {
				k.inconclusive(fmt.Sprintf("direct ack for %d: %v", i, err))
				return
			}
			k.r.Count("ack.direct", 1)
		}
		k.acked[i] = true
	}
}

// ---------------------------------------------------------------------------
// restarts

func (k *c39Case) restartTarget() {
	if k.dead {
		return
	}
	k.T.close()
	if err := k.T.open(); err != nil {
		k.inconclusive("reopen target: " + err.Error())
		return
	}
	if !k.switched && k.rng.IntN(2) == 0 {
		k.T.sm.UpdateIncomingDeltaHashSlots([]uint16{k.h})
	}
	k.nRestartT++
	k.r.Count("restart.target", 1)
}

func (k *c39Case) restartSource() {
	if k.dead {
		return
	}
	k.S.close()
	if err := k.S.open(); err != nil {
		k.inconclusive("reopen source: " + err.Error())
		return
	}
	if k.targets && !k.switched {
		k.S.sm.UpdateOutgoingDeltaTargets(map[uint16]multiraft.SlotID{k.h: multiraft.SlotID(c39TgtSlot)})
		k.S.sm.SetDeltaForwarder(k.forwarder)
	}
	k.nRestartS++
	k.r.Count("restart.source", 1)
}

// ---------------------------------------------------------------------------
// checkpoints

func (k *c39Case) businessBytes(db *metadb.DB) []byte {
	rc, err := db.OpenBackupHashSlotSnapshot(k.ctx, []uint16{k.h})
	if err != nil {
		k.inconclusive("OpenBackupHashSlotSnapshot: " + err.Error())
		return nil
	}
	defer rc.Close()
	b, err := io.ReadAll(rc)
	if err != nil {
		k.inconclusive("read backup stream: " + err.Error())
		return nil
	}
	return b
}

func (k *c39Case) fullBytes(db *metadb.DB) []byte {
	snap, err := db.ExportHashSlotSnapshot(k.ctx, []uint16{k.h})
	if err != nil {
		k.inconclusive("ExportHashSlotSnapshot: " + err.Error())
		return nil
	}
	return snap.Data
}

func (k *c39Case) checkTarget(stage string) {
	if k.dead {
		return
	}
	keys := make([]string, 0, len(k.expT))
	for key := range k.expT {
		keys = append(keys, key)
	}
	sort.Strings(keys)
	missing, differ := 0, 0
	for _, key := range keys {
		row := k.rows[key]
		v, present := k.readRow(k.T, row)
		if k.dead {
			return
		}
		k.r.Eval(1)
		if !present {
			v = c39Absent
		}
		if !present && k.expT[key] != c39Absent {
			if missing < 3 {
				k.viol("accepted-write-missing-on-target:"+row.Fam, map[string]any{"stage": stage, "row": key, "expected": k.expT[key]})
			}
			missing++
		} else if v != k.expT[key] {
			if differ < 3 {
				k.viol("target-row-value-differs:"+row.Fam, map[string]any{"stage": stage, "row": key, "expected": k.expT[key], "got": v})
			}
			differ++
		}
	}
	k.r.Count("check."+stage+".target_rows", len(keys))
	k.checkAbsent(stage)
}

func (k *c39Case) checkAbsent(stage string) {
	for _, pair := range []struct {
		side *c39Side
		m    map[string]*c39Row
	}{{k.S, k.absentS}, {k.T, k.absentT}} {
		n := 0
		for key, row := range pair.m {
			if _, present := k.readRow(pair.side, row); present {
				if n < 3 {
					k.viol("refused-write-present:"+row.Fam+":"+pair.side.name, map[string]any{"stage": stage, "row": key})
				}
				n++
			}
			if k.dead {
				return
			}
			k.r.Eval(1)
		}
		k.r.Count("check."+stage+".absent_rows", len(pair.m))
	}
}

func (k *c39Case) checkSourceControl(stage string) {
	if k.dead {
		return
	}
	n := 0
	for key, want := range k.expS {
		row := k.rows[key]
		if row.Slot != k.c {
			continue
		}
		n++
		v, present := k.readRow(k.S, row)
		if k.dead {
			return
		}
		if !present {
			v = c39Absent
		}
		k.r.Eval(1)
		if v != want {
			k.viol("control-slot-write-lost-on-source:"+row.Fam, map[string]any{"stage": stage, "row": key, "expected": want, "got": v})
		}
	}
	k.r.Count("check."+stage+".control_rows", n)
}

// c39SnapshotEntries reads the entry count of a portable hash-slot snapshot
// (magic[4] version[2] n[2] slots[2n] count[8] ...).
func c39SnapshotEntries(data []byte) (uint64, bool) {
	if len(data) < 8 {
		return 0, false
	}
	n := int(binary.BigEndian.Uint16(data[6:8]))
	off := 8 + 2*n
	if len(data) < off+8 {
		return 0, false
	}
	return binary.BigEndian.Uint64(data[off : off+8]), true
}

// checkLeak: the target may hold h (migrated) and its own t0, nothing else. A
// delta applied under the wrong hash slot puts rows of a non-migrating hash
// slot (the control slot c, or the legacy envelope slot 0) into the target.
func (k *c39Case) checkLeak(stage string) {
	if k.dead {
		return
	}
	for _, hs := range []uint16{k.c, 0} {
		snap, err := k.T.db.ExportHashSlotSnapshot(k.ctx, []uint16{hs})
		if err != nil {
			k.inconclusive("export for the leak check: " + err.Error())
			return
		}
		cnt, ok := c39SnapshotEntries(snap.Data)
		if !ok {
			k.inconclusive("unparsable snapshot header in the leak check")
			return
		}
		k.r.Eval(1)
		if cnt == 0 {
			continue
		}
		fams := map[string]int{}
		for _, row := range k.rows {
			if row.Slot != hs {
				continue
			}
			if _, onT := k.readRow(k.T, row); onT {
				fams[row.Fam]++
			}
		}
		names := make([]string, 0, len(fams))
		for f := range fams {
			names = append(names, f)
		}
		sort.Strings(names)
		if len(names) == 0 {
			names = []string{"untyped"} // rows under a hash slot no generated write was keyed to (e.g. envelope slot 0)
		}
		// Rows of a NON-migrating hash slot leaking into the target are outside the
		// C39 statement (it speaks about writes accepted for the migrating hash slot):
		// observed and counted, not a verdict (DESIGN.md 11.3).
		k.r.Count("observed(not asserted).non-migrating-hash-slot-rows-in-target:"+strings.Join(names, "+"), 1)
		_ = cnt
	}
	k.r.Count("check."+stage+".leak_scans", 2)
}

// ---------------------------------------------------------------------------

func (k *c39Case) run() {
	rng := k.rng
	S, T := k.S, k.T
	// ---- A: pre-migration
	k.sourceWrites(2 + rng.IntN(8))
	if rng.IntN(2) == 0 {
		k.probe(T)
	}
	// ---- B: delta targets BEFORE the snapshot is opened
	if rng.IntN(2) == 0 {
		S.sm.SetDeltaForwarder(k.forwarder)
		S.sm.UpdateOutgoingDeltaTargets(map[uint16]multiraft.SlotID{k.h: multiraft.SlotID(c39TgtSlot)})
	} else {
		S.sm.UpdateOutgoingDeltaTargets(map[uint16]multiraft.SlotID{k.h: multiraft.SlotID(c39TgtSlot)})
		if rng.IntN(4) != 0 {
			S.sm.SetDeltaForwarder(k.forwarder)
		} // else: no forwarder at all, outbox only
	}
	k.targets = true
	if rng.IntN(2) == 0 {
		T.sm.UpdateIncomingDeltaHashSlots([]uint16{k.h})
	}
	k.sourceWrites(rng.IntN(6))
	if rng.IntN(3) == 0 {
		k.probe(T)
	}
	// ---- C: snapshot (pinned), writes around it, import
	var snapData []byte
	if k.snapMethod != "export" {
		rc, err := S.sm.OpenHashSlotSnapshot(k.ctx, k.h)
		if err != nil {
			k.inconclusive("OpenHashSlotSnapshot: " + err.Error())
			return
		}
		k.pinned = true
		k.sourceWrites(1 + rng.IntN(6)) // after the pin, before the first byte is read
		b, err := io.ReadAll(rc)
		_ = rc.Close()
		if err != nil {
			k.inconclusive("read snapshot stream: " + err.Error())
			return
		}
		snapData = b
	} else {
		snap, err := S.sm.ExportHashSlotSnapshot(k.ctx, k.h)
		if err != nil {
			k.inconclusive("ExportHashSlotSnapshot: " + err.Error())
			return
		}
		k.pinned = true
		snapData = snap.Data
	}
	k.sourceWrites(rng.IntN(5))
	if rng.IntN(4) == 0 {
		k.restartSource()
	}
	if err := T.sm.ImportHashSlotSnapshot(k.ctx, metadb.SlotSnapshot{HashSlots: []uint16{k.h}, Data: snapData}); err != nil {
		k.inconclusive("ImportHashSlotSnapshot: " + err.Error())
		return
	}
	k.imported = true
	k.r.Count("snapshot."+k.snapMethod, 1)
	// ---- D: delta phase
	steps := 6 + rng.IntN(14)
	for i := 0; i < steps && !k.dead; i++ {
		switch x := rng.IntN(20); {
		case x < 7:
			k.sourceWrites(1 + rng.IntN(3))
		case x < 12:
			k.deliverSome(1 + rng.IntN(3))
		case x < 14:
			k.refill(0)
		case x < 16:
			k.ackSome(false)
		case x < 17:
			k.restartTarget()
		case x < 18:
			k.restartSource()
		default:
			k.probe(T)
		}
	}
	// ---- E: enter fence (optionally in the middle of a batch), post-fence writes, drain
	fence := fsm.EncodeEnterFenceCommand(k.h)
	if rng.IntN(2) == 0 {
		fence = fsm.EncodeEnterFenceCommandForTarget(k.h, multiraft.SlotID(c39TgtSlot))
	}
	if rng.IntN(2) == 0 {
		// [write, FENCE, write, write] in one ApplyBatch: the tail must be fenced
		k.fenceInBatch = true
		pre := k.genWrite(k.h, "")
		post1, post2 := k.genWrite(k.h, ""), k.genWrite([]uint16{k.h, k.c}[rng.IntN(2)], k.pickMulti())
		S.next++
		b := []multiraft.Command{{SlotID: multiraft.SlotID(c39SrcSlot), HashSlot: k.h, Index: S.next, Term: 1, Data: pre.Data}}
		S.next++
		fidx := S.next
		b = append(b, multiraft.Command{SlotID: multiraft.SlotID(c39SrcSlot), HashSlot: k.h, Index: fidx, Term: 1, Data: fence})
		S.next++
		b = append(b, multiraft.Command{SlotID: multiraft.SlotID(c39SrcSlot), HashSlot: post1.Envelope, Index: S.next, Term: 1, Data: post1.Data})
		S.next++
		b = append(b, multiraft.Command{SlotID: multiraft.SlotID(c39SrcSlot), HashSlot: post2.Envelope, Index: S.next, Term: 1, Data: post2.Data})
		res, err := S.sm.ApplyBatch(k.ctx, b)
		if err != nil {
			k.inconclusive("fence batch refused: " + err.Error())
			return
		}
		k.nPostPin++
		k.recordSourceResults([]*c39Cmd{pre, nil, post1, post2}, res)
		k.crossCheck()
	} else {
		S.next++
		res, err := S.sm.Apply(k.ctx, multiraft.Command{SlotID: multiraft.SlotID(c39SrcSlot), HashSlot: k.h, Index: S.next, Term: 1, Data: fence})
		if err != nil || string(res) != fsm.ApplyResultOK {
			k.inconclusive(fmt.Sprintf("enter fence: res=%q err=%v", res, err))
			return
		}
		k.crossCheck()
	}
	if k.dead {
		return
	}
	st, err := S.sm.LoadHashSlotMigrationState(k.ctx, k.h)
	if err != nil || st.FenceIndex == 0 {
		k.inconclusive(fmt.Sprintf("migration state after fence: %+v err=%v", st, err))
		return
	}
	k.fenceIdx = st.FenceIndex
	k.r.Count("fence.entered", 1)
	k.sourceWrites(1 + rng.IntN(5)) // must all come back fenced (h) or accepted (c)
	if rng.IntN(3) == 0 {
		k.restartSource() // the fence is durable
		k.sourceWrites(1 + rng.IntN(3))
	}
	k.probe(T)
	// drain: replay every outbox row up to FenceIndex, then acknowledge
	for round := 0; round < 50 && !k.dead; round++ {
		k.refill(k.fenceIdx)
		// forwarder captures beyond the fence are not part of the cut-over set
		for p := range k.pending {
			if p.Index > k.fenceIdx {
				delete(k.pending, p)
			}
		}
		if len(k.pending) == 0 {
			break
		}
		k.deliverSome(len(k.pending) + 2)
		if rng.IntN(5) == 0 {
			k.restartTarget()
		}
	}
	if k.dead {
		return
	}
	if len(k.pending) != 0 {
		k.inconclusive("drain did not converge")
		return
	}
	k.ackSome(true)
	if k.dead {
		return
	}
	st, err = S.sm.LoadHashSlotMigrationState(k.ctx, k.h)
	if err != nil {
		k.inconclusive("load state after acks: " + err.Error())
		return
	}
	if st.LastAckedIndex < st.FenceIndex {
		k.inconclusive(fmt.Sprintf("LastAckedIndex %d < FenceIndex %d after acking everything delivered", st.LastAckedIndex, st.FenceIndex))
		return
	}
	if rows := k.listOutbox(); len(rows) != 0 {
		idx := []uint64{}
		for _, r := range rows {
			idx = append(idx, r.SourceIndex)
		}
		k.viol("outbox-not-empty-after-acks", map[string]any{"remaining_source_indexes": idx, "fence_index": st.FenceIndex, "state": fmt.Sprintf("%+v", st)})
	}
	k.r.Eval(1)
	// CP1: everything S accepted for h is on T; business bytes identical
	k.checkTarget("drained")
	k.checkLeak("drained")
	if k.dead {
		return
	}
	sb, tb := k.businessBytes(S.db), k.businessBytes(T.db)
	if k.dead {
		return
	}
	k.r.Eval(1)
	if !bytes.Equal(sb, tb) {
		k.viol("h-business-content-differs-after-drain", map[string]any{"source_bytes": len(sb), "target_bytes": len(tb), "snapshot": k.snapMethod})
	}
	// ---- F: switch ownership, four runtime updates in a random order, probes in between
	ops := []string{"S-lose", "T-gain", "S-clear-targets", "T-clear-incoming"}
	rng.Shuffle(len(ops), func(i, j int) { ops[i], ops[j] = ops[j], ops[i] })
	k.switchOrder = strings.Join(ops, ",")
	for _, op := range ops {
		switch op {
		case "S-lose":
			S.owned[k.h] = false
			S.sm.UpdateOwnedHashSlots(S.ownedList())
		case "T-gain":
			T.owned[k.h] = true
			T.sm.UpdateOwnedHashSlots(T.ownedList())
		case "S-clear-targets":
			S.sm.UpdateOutgoingDeltaTargets(map[uint16]multiraft.SlotID{})
		case "T-clear-incoming":
			T.sm.UpdateIncomingDeltaHashSlots(nil)
		}
		if rng.IntN(2) == 0 {
			k.probe(S) // refused (lost h) or fenced (still owner)
		}
		if !T.owned[k.h] && rng.IntN(2) == 0 {
			k.probe(T)
		}
	}
	k.switched = true
	k.targets = false
	k.r.Count("switch.done", 1)
	// ---- G: cleanup of the source outbox / migration state
	st, err = S.sm.LoadHashSlotMigrationState(k.ctx, k.h)
	if err != nil {
		k.inconclusive("load state before cleanup: " + err.Error())
		return
	}
	if rng.IntN(2) == 0 {
		S.next++
		res, err := S.sm.Apply(k.ctx, multiraft.Command{SlotID: multiraft.SlotID(c39SrcSlot), HashSlot: k.h, Index: S.next, Term: 1,
			Data: fsm.EncodeCleanupHashSlotMigrationOutboxCommand(k.h, multiraft.SlotID(c39SrcSlot), multiraft.SlotID(c39TgtSlot), st.LastOutboxIndex)})
		if err != nil || string(res) != fsm.ApplyResultOK {
			k.inconclusive(fmt.Sprintf("cleanup command: res=%q err=%v", res, err))
			return
		}
	} else if err := S.sm.CleanupHashSlotMigrationOutbox(k.ctx, k.h, c39SrcSlot, c39TgtSlot, st.LastOutboxIndex); err != nil {
		k.inconclusive("direct cleanup: " + err.Error())
		return
	}
	if rows := k.listOutbox(); len(rows) != 0 {
		k.viol("outbox-not-empty-after-cleanup", map[string]any{"rows": len(rows)})
	}
	k.probe(S)
	// ---- H: the new owner takes writes: fresh keys, newer values on migrated keys, re-submissions
	k.postSwitchWrites()
	if k.dead {
		return
	}
	k.checkTarget("post-switch")
	if k.dead {
		return
	}
	before := k.fullBytes(T.db)
	if k.dead {
		return
	}
	// replay every delta ever emitted up to the fence: reordered, duplicated, batched, across a restart
	// ... and from both transports (a capture and its outbox row are two copies)
	all := make([]c39Pend, 0, len(k.captures)+len(k.outbox))
	for i := range k.captures {
		if i <= k.fenceIdx {
			all = append(all, c39Pend{i, 'F'})
		}
	}
	for i := range k.outbox {
		if i <= k.fenceIdx {
			all = append(all, c39Pend{i, 'O'})
		}
	}
	sort.Slice(all, func(a, b int) bool {
		if all[a].Index != all[b].Index {
			return all[a].Index < all[b].Index
		}
		return all[a].Src < all[b].Src
	})
	for pass := 0; pass < 2 && !k.dead; pass++ {
		rng.Shuffle(len(all), func(i, j int) { all[i], all[j] = all[j], all[i] })
		for off := 0; off < len(all) && !k.dead; {
			n := 1 + rng.IntN(4)
			if off+n > len(all) {
				n = len(all) - off
			}
			k.deliver(all[off:off+n], false, true)
			off += n
		}
		if pass == 0 {
			k.restartTarget()
			if !k.dead {
				// the restarted machine must still own h
				k.T.sm.UpdateOwnedHashSlots(k.T.ownedList())
			}
		}
	}
	if k.dead {
		return
	}
	after := k.fullBytes(T.db)
	if k.dead {
		return
	}
	k.r.Eval(1)
	if !bytes.Equal(before, after) {
		k.viol("delta-replay-changed-target-bytes", map[string]any{"before": len(before), "after": len(after), "replayed": len(all) * 2})
	}
	k.probe(S)
	k.sourceControlWrites()
	k.checkTarget("final")
	k.checkSourceControl("final")
	k.checkLeak("final")
}

// recordSourceResults books results of a hand-built source batch (nil = maintenance command).
func (k *c39Case) recordSourceResults(cmds []*c39Cmd, res [][]byte) {
	ph := k.phase()
	for i, c := range cmds {
		if c == nil {
			if string(res[i]) != fsm.ApplyResultOK {
				k.inconclusive(fmt.Sprintf("fence inside batch answered %q", res[i]))
			}
			continue
		}
		out := c39Outcome(res[i])
		k.r.Count("write."+ph+".fencebatch."+out, 1)
		if out == "accepted" {
			for _, row := range c.Rows {
				v, present := k.readRow(k.S, row)
				if k.dead {
					return
				}
				if !present {
					k.inconclusive("accepted write in fence batch not visible: " + row.Key)
					return
				}
				k.expS[row.Key] = v
				if row.Slot == k.h {
					k.expT[row.Key] = v
				}
			}
		} else {
			if out == "fenced" {
				k.nFencedW++
				k.fenced = append(k.fenced, c)
			}
			k.markRefused(k.S, c, out+" inside fence batch")
		}
	}
}

func (k *c39Case) postSwitchWrites() {
	rng := k.rng
	T := k.T
	// fresh keys
	n := 1 + rng.IntN(4)
	for i := 0; i < n && !k.dead; i++ {
		fam := c39Single[rng.IntN(len(c39Single))] // single-slot families only: T does not own c
		k.apply(T, []*c39Cmd{k.genWrite(k.h, fam)})
	}
	// newer values on keys that deltas/snapshot wrote: a re-applied stale delta becomes visible
	keys := make([]string, 0, len(k.expT))
	for key := range k.expT {
		keys = append(keys, key)
	}
	sort.Strings(keys)
	rng.Shuffle(len(keys), func(i, j int) { keys[i], keys[j] = keys[j], keys[i] })
	budget := 6
	for _, key := range keys {
		if budget == 0 || k.dead {
			break
		}
		row := k.rows[key]
		name := strings.TrimSuffix(strings.TrimPrefix(key, row.Fam+":"), fmt.Sprintf("@%d", row.Slot))
		k.seq++
		var data []byte
		switch row.Fam {
		case "user":
			data = fsm.EncodeUpsertUserCommand(metadb.User{UID: name, Token: fmt.Sprintf("tok2-%d", k.seq), DeviceFlag: 7, DeviceLevel: 1})
		case "channel":
			data = fsm.EncodeUpsertChannelCommand(metadb.Channel{ChannelID: name, ChannelType: 2, Ban: 1, Disband: 1, SendBan: 1})
		case "subs":
			// remove the first subscriber: count goes down; a replayed add would bring it back
			uids, err := T.db.ForHashSlot(k.h).ListSubscribersSnapshot(k.ctx, name, 2)
			if err != nil || len(uids) == 0 {
				continue
			}
			ch, err := T.db.ForHashSlot(k.h).GetChannel(k.ctx, name, 2)
			if err != nil {
				continue
			}
			// same mutation version as the add: a re-applied add delta would pass the
			// version fence and visibly restore the subscriber and the counter
			data = fsm.EncodeRemoveSubscribersCommand(name, 2, uids[:1], ch.SubscriberMutationVersion)
		case "device":
			parts := strings.Split(name, "/")
			var flag int64
			fmt.Sscanf(parts[1], "%d", &flag)
			data = fsm.EncodeUpsertDeviceCommand(metadb.Device{UID: parts[0], DeviceFlag: flag, Token: fmt.Sprintf("dtok2-%d", k.seq), DeviceLevel: 2})
		default:
			continue
		}
		before := k.expT[key]
		k.apply(T, []*c39Cmd{{ID: k.seq, Fam: row.Fam + "-v2", Envelope: k.h, Data: data, Rows: []*c39Row{row}, Slots: map[uint16]bool{k.h: true}}})
		if k.dead {
			return
		}
		if k.expT[key] == before {
			k.inconclusive("post-switch overwrite of " + key + " did not change the row")
			return
		}
		k.nV2++
		k.r.Count("postswitch.overwrites."+row.Fam, 1)
		budget--
	}
	// re-submission of writes the source answered fenced
	for _, c := range k.fenced {
		if k.dead || rng.IntN(2) == 0 || len(c.Slots) != 1 || !c.Slots[k.h] {
			continue
		}
		k.apply(T, []*c39Cmd{c})
		k.r.Count("postswitch.resubmitted_fenced", 1)
	}
}

func (k *c39Case) sourceControlWrites() {
	n := 1 + k.rng.IntN(3)
	for i := 0; i < n && !k.dead; i++ {
		fam := c39Single[k.rng.IntN(len(c39Single))]
		k.apply(k.S, []*c39Cmd{k.genWrite(k.c, fam)})
	}
}

func (k *c39Case) fingerprint() string {
	b := func(n int) string {
		switch {
		case n == 0:
			return "0"
		case n < 4:
			return "few"
		}
		return "many"
	}
	return fmt.Sprintf("legacy=%v|", k.legacy) + fmt.Sprintf("%s|sw=%s|fib=%v|pp=%s|dup=%s|inv=%s|poi=%s|rT=%s|rS=%s|multi=%s|v2=%s|fw=%s|drop=%.0f|fail=%.0f",
		k.snapMethod, k.switchOrder, k.fenceInBatch, b(k.nPostPin), b(k.nDup), b(k.nInv), b(k.nPoison), b(k.nRestartT), b(k.nRestartS), b(k.nMulti), b(k.nV2), b(k.nFencedW), k.dropFwd*10, k.failFwd*10)
}

// TestVerifC39: unit main.
func TestVerifC39(t *testing.T) { c39Run(t, "main", false) }

// TestVerifC39Cmd59: the same monitor, with create-runtime-metadata batches
// (command 59) that carry items for the migrating AND the control hash slot.
// Command 59 is the one multi-hash-slot family without a per-hash-slot filter
// for apply_delta, so it is kept apart from unit main.
func TestVerifC39Cmd59(t *testing.T) { c39Run(t, "cmd59", true) }

func c39Run(t *testing.T, unit string, both59 bool) {
	r := verifkit.Start(t, "C39", unit)
	defer r.Finish()
	r.SetRule("One case = one full migration of a random hash slot h from slot 11 to slot 22 (two real fsm state machines on two real meta DBs) with a PRNG stream of uniquely keyed writes (user, device, channel, subscriber set with counter, membership, channel-latest, plugin binding, and every command family with a per-item hash slot: channel-latest batch 47, create-runtime-meta batch 59, person-directory admission 63 / membership 64 / completion 65, each carrying items for h AND the control slot c, proposed under either envelope hash slot) in every phase; one case in five uses a legacy source (fsm.NewStateMachine, envelope hash slot 0); forwarder captures are randomly lost/failed so the durable outbox has to cover them; deltas are delivered from both transports, each copy with the hash slot that transport carries, and every capture is cross-checked against its outbox row; deltas reach the target reordered, duplicated (also inside one batch), behind-poison (aborted batch) and replayed after restarts; ordinary writes for h are submitted to the non-owner in every phase. Non-trivial = the case reached the switch with >=1 write accepted after the snapshot pin, >=1 duplicate or out-of-order delivery and >=1 post-switch overwrite followed by a full replay; distinct = (snapshot method, switch order, fence-in-batch, bucketed counts of post-pin writes/dups/inversions/poisoned batches/restarts/multi-slot/overwrites/fenced writes, loss and failure rate of the forwarder).")
	r.Assume("Phase order copied from DESIGN.md and the protocol notes in docs (the production driver is not in this tree): delta targets before the snapshot pin; no delta reaches the target before the snapshot import finished; the switch waits for every outbox row <= FenceIndex to be applied and acknowledged; cleanup runs after the ownership switch.")
	r.Assume("A success result of ApplyBatch (anything but hash_slot_fenced / stale_meta / error) = accepted; the value an accepted write has on the accepting side right after the apply is the reference value.")
	r.Note("production_driver", "pkg/cluster has no hash-slot migration executor in this tree (grep for UpdateOutgoingDeltaTargets/EncodeApplyDeltaCommand finds only pkg/slot/fsm and pkg/db/meta); the harness is the driver.")

	base := t.TempDir()
	sigSeen := map[string]int{}
	n, stream := r.N(160, 1500), uint64(39)
	if both59 {
		n, stream = r.N(40, 300), 3959
	}
	for i := 0; i < n; i++ {
		if r.Skip(i) {
			continue
		}
		rng := r.Rand(stream, uint64(i))
		perm := rng.Perm(300)
		k := &c39Case{r: r, rng: rng, ctx: context.Background(), idx: i, dir: filepath.Join(base, fmt.Sprintf("case%d", i)),
			h: uint16(1 + perm[0]), c: uint16(1 + perm[1]), t0: uint16(1 + perm[2]),
			expS: map[string]string{}, expT: map[string]string{}, rows: map[string]*c39Row{}, absentS: map[string]*c39Row{}, absentT: map[string]*c39Row{},
			captures: map[uint64]c39Delta{}, outbox: map[uint64]c39Delta{}, checked: map[uint64]bool{}, deps: map[uint64]uint64{},
			pending: map[c39Pend]bool{}, delivered: map[uint64]int{}, acked: map[uint64]bool{},
			dropFwd: []float64{0, 0.3, 0.6, 1}[rng.IntN(4)], failFwd: []float64{0, 0.3, 1}[rng.IntN(3)]}
		k.rt59Both, k.sigSeen = both59, sigSeen
		k.snapMethod = "open-pinned-stream"
		if rng.IntN(3) == 0 {
			k.snapMethod = "export"
		}
		if rng.IntN(5) == 0 {
			// legacy source: fsm.NewStateMachine(db, 11) owns hash slot 11 by default and
			// resolves envelope hash slot 0 to it; the migrating hash slot is that one.
			k.legacy = true
			k.h = uint16(c39SrcSlot)
			k.c, k.t0 = uint16(12+perm[1]), uint16(320+perm[2])
		}
		k.S = &c39Side{name: "source", slot: c39SrcSlot, path: filepath.Join(k.dir, "src"), owned: map[uint16]bool{k.h: true, k.c: true}, next: uint64(rng.IntN(1000)), legacy: k.legacy}
		k.T = &c39Side{name: "target", slot: c39TgtSlot, path: filepath.Join(k.dir, "tgt"), owned: map[uint16]bool{k.t0: true}, next: uint64(rng.IntN(1000))}
		r.BeginCase(i, fmt.Sprintf("h=%d c=%d drop=%.1f fail=%.1f legacy=%v", k.h, k.c, k.dropFwd, k.failFwd, k.legacy))
		if err := k.S.open(); err != nil {
			r.Inconclusive("open source: " + err.Error())
			break
		}
		if err := k.T.open(); err != nil {
			r.Inconclusive("open target: " + err.Error())
			break
		}
		k.run()
		k.S.close()
		k.T.close()
		_ = os.RemoveAll(k.dir)
		r.Count("cases", 1)
		if k.dead {
			r.Count("cases.aborted", 1)
			continue
		}
		r.Count("cases.completed", 1)
		r.Max("max_deltas_in_one_case", len(k.outbox))
		if k.switched && k.nPostPin > 0 && (k.nDup > 0 || k.nInv > 0) && k.nV2 > 0 && k.nReplay > 0 {
			r.Nontrivial(k.fingerprint())
		}
		if r.WantSample() {
			r.Sample(map[string]any{"case": i, "h": k.h, "c": k.c, "shape": k.fingerprint(), "deltas": len(k.outbox), "fence_index": k.fenceIdx,
				"rows_expected_on_target": len(k.expT), "rows_refused_absent": len(k.absentT), "dup": k.nDup, "out_of_order": k.nInv, "replays": k.nReplay})
		}
	}
}
