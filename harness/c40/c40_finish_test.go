//go:build verif

// C40 part (ii) — a stream.finish that would drop cached non-durable deltas
// fails instead of writing a completed projection.
//
// In-package monitor (unexported cache + Node fields are unavoidable): a
// partially constructed cluster.Node — router with one slot led by this node,
// the real messageEventStreamCache, optionally the real finish coalescer — whose
// proposer applies the encoded commands to a real pkg/slot/fsm state machine on
// a real pkg/db/meta database.  No transport, no raft, no running node.
//
// Drive: PRNG stream events for one message through Node.AppendMessageEvent
// (open/delta/snapshot are cache-only and acknowledged without a durable
// write; close/error/cancel are durable and merge the cached snapshot), then a
// "leader cache loss" (cache reset after restore, a brand new leader node with
// an empty cache, restore pause / resume, and loss of local authority over the
// channel's hash slot H through real routing transitions installed with
// Node.updateRouteAuthorityTable: Slot leader moves to node 2 and back; H is
// rebalanced to a Slot led by node 2 and back with every Slot leader unchanged;
// H is rebalanced away and this node is later elected leader of the target
// Slot; optionally the interim leader — a second Node with its own cache on the
// same durable proposer — acknowledges events meanwhile), optionally further
// cache-only events that arrive after the loss, then stream.finish (payload
// without a snapshot) on the node that has authority again.
//
// Oracle (from the statement; observable at the DB):
//
//	G: whenever the durable finish marker (lane "__finish__", status closed)
//	   exists for the message, every lane must be durable with a snapshot equal
//	   to the fold of ALL the delta/snapshot events the node acknowledged for it
//	   (up to the lane's own terminal event).
//	After a cache loss with non-durable deltas outstanding, finish must return
//	an error and G must hold (no closed finish row).
//
// Not asserted: a finish that fails although nothing would be lost (allowed
// error return, counted); finish payloads that carry their own snapshot (the
// documented exception in pkg/cluster/FLOW.md: such a finish is self-sufficient
// — counted in evidence only).
package cluster

import (
	"context"
	"encoding/json"
	"fmt"
	"path/filepath"
	"strings"
	"sync"
	"testing"
	"time"

	"github.com/WuKongIM/WuKongIM/pkg/cluster/control"
	"github.com/WuKongIM/WuKongIM/pkg/cluster/propose"
	"github.com/WuKongIM/WuKongIM/pkg/cluster/routing"
	metadb "github.com/WuKongIM/WuKongIM/pkg/db/meta"
	metafsm "github.com/WuKongIM/WuKongIM/pkg/slot/fsm"
	"github.com/WuKongIM/WuKongIM/pkg/slot/multiraft"
	"github.com/WuKongIM/WuKongIM/pkg/verifkit"
)

const c40HashSlotCount = 4

// c40ControlSnapshot: two data nodes, two Slots (Slot 1 preferred/led by node 1,
// Slot 2 by node 2), four hash slots: 0,1 -> Slot 1 and 2,3 -> Slot 2. With
// moved=true hash slot h is rebalanced to Slot 2 (no Slot leader involved).
func c40ControlSnapshot(revision uint64, moved bool, h uint16) control.Snapshot {
	owner := []uint32{1, 1, 2, 2}
	if moved {
		owner[h] = 2
	}
	ranges := []control.HashSlotRange{}
	for i, slot := range owner {
		if n := len(ranges); n > 0 && ranges[n-1].SlotID == slot {
			ranges[n-1].To = uint16(i)
			continue
		}
		ranges = append(ranges, control.HashSlotRange{From: uint16(i), To: uint16(i), SlotID: slot})
	}
	return control.Snapshot{
		Revision:     revision,
		ControllerID: 1,
		Nodes: []control.Node{
			{NodeID: 1, Addr: "127.0.0.1:1001", Roles: []control.Role{control.RoleData}, Status: control.NodeAlive},
			{NodeID: 2, Addr: "127.0.0.1:1002", Roles: []control.Role{control.RoleData}, Status: control.NodeAlive},
		},
		Slots: []control.SlotAssignment{
			{SlotID: 1, DesiredPeers: []uint64{1, 2}, ConfigEpoch: 1, PreferredLeader: 1},
			{SlotID: 2, DesiredPeers: []uint64{1, 2}, ConfigEpoch: 1, PreferredLeader: 2},
		},
		HashSlots: control.HashSlotTable{Revision: revision, Count: c40HashSlotCount, Ranges: ranges},
	}
}

// c40Router builds the initial routing state every node starts from.
func c40Router() (*routing.Router, error) {
	router := routing.NewRouter()
	if err := router.UpdateControlSnapshot(c40ControlSnapshot(1, false, 0)); err != nil {
		return nil, err
	}
	router.UpdateSlotLeaders([]routing.SlotStatus{{SlotID: 1, Leader: 1, LeaderTerm: 9}, {SlotID: 2, Leader: 2, LeaderTerm: 9}})
	return router, nil
}

// c40Proposer is the "slot raft group": it applies proposals to a real fsm.
type c40Proposer struct {
	mu     sync.Mutex
	router *routing.Router
	sm     multiraft.StateMachine
	next   uint64
	calls  int
}

func (p *c40Proposer) Propose(ctx context.Context, req propose.Request) error {
	_, err := p.ProposeResult(ctx, req)
	return err
}

func (p *c40Proposer) ProposeResult(ctx context.Context, req propose.Request) ([]byte, error) {
	route, err := p.router.RouteKey(req.Key)
	if err != nil {
		return nil, err
	}
	p.mu.Lock()
	defer p.mu.Unlock()
	p.calls++
	p.next++
	return p.sm.Apply(ctx, multiraft.Command{SlotID: 1, HashSlot: route.HashSlot, Index: p.next, Term: 1, Data: req.Command})
}

func (p *c40Proposer) callCount() int { p.mu.Lock(); defer p.mu.Unlock(); return p.calls }

// c40NewNode builds a node with its OWN router in the initial routing state;
// routing transitions are installed through Node.updateRouteAuthorityTable, the
// production path that also runs the lost-local-authority cache scan.
func c40NewNode(nodeID uint64, proposer *c40Proposer, coalesce bool) *Node {
	router, err := c40Router()
	if err != nil {
		panic(err)
	}
	n := &Node{cfg: Config{NodeID: nodeID}, router: router, messageEventStreamCache: newMessageEventStreamCache(0), proposer: proposer}
	if coalesce {
		n.messageEventFinishCoalescer = newMessageEventFinishCoalescer(defaultMessageEventFinishCoalesceWindow)
	}
	n.started.Store(true)
	return n
}

func c40FoldText(existing, payload []byte, typ string) []byte {
	if typ == metadb.EventTypeStreamSnapshot {
		return append([]byte(nil), payload...)
	}
	var d struct {
		Kind  string `json:"kind"`
		Delta string `json:"delta"`
	}
	if json.Unmarshal(payload, &d) != nil || d.Kind != "text" {
		return append([]byte(nil), payload...)
	}
	var cur struct {
		Kind string `json:"kind"`
		Text string `json:"text"`
	}
	text := ""
	if json.Unmarshal(existing, &cur) == nil && cur.Kind == "text" {
		text = cur.Text
	}
	out, _ := json.Marshal(map[string]string{"kind": "text", "text": text + d.Delta})
	return out
}

func c40JSONEqual(a, b []byte) bool {
	var x, y any
	if json.Unmarshal(a, &x) != nil || json.Unmarshal(b, &y) != nil {
		return string(a) == string(b)
	}
	xb, _ := json.Marshal(x)
	yb, _ := json.Marshal(y)
	return string(xb) == string(yb)
}

type c40FinLane struct {
	acked      int    // delta/snapshot events acknowledged (nil error) before the lane's terminal event
	fold       []byte // fold of those events
	terminal   bool   // an explicit terminal event was durably accepted for the lane
	afterLoss  int    // acknowledged payload events that arrived after the cache loss
	beforeLoss int
}

// TestVerifC40Finish: no loss, or a cache loss immediately before stream.finish.
func TestVerifC40Finish(t *testing.T) { c40RunFinish(t, "finish", false) }

// TestVerifC40FinishMidstream: the cache loss happens in the middle of the
// stream and further cache-only events of the same message reach the new
// (empty) cache before stream.finish.
func TestVerifC40FinishMidstream(t *testing.T) { c40RunFinish(t, "finish_midstream", true) }

func c40RunFinish(t *testing.T, unit string, midOnly bool) {
	r := verifkit.Start(t, "C40", unit)
	defer r.Finish()
	r.SetRule("One case = one stream message on a partially constructed cluster.Node (real stream cache, real finish path, proposer = real fsm on a real meta DB): 1-3 lanes, 2-12 cache-only events (open, text delta, JSON snapshot) with duplicate ids, optional durable close/error/cancel of a lane, then a leader cache loss of a random kind (none | reset-after-restore | new leader node with empty cache | route-authority loss = Slot leader moves to node 2 and back | restore pause+resume | hash slot rebalanced to a Slot led by node 2 and back with no Slot leader change | hash slot rebalanced away and this node later elected leader of the target Slot; routing transitions are installed through Node.updateRouteAuthorityTable on per-node routers; in half of the routing cases the other leader (a second Node with its own cache, same durable proposer) acknowledges 1-3 interim cache-only events) either right before stream.finish (unit finish) or followed by 1-4 more cache-only events of the same message (unit finish_midstream), then stream.finish directly or through the finish coalescer. Non-trivial = acknowledged non-durable deltas existed when the cache was lost; distinct = (loss kind, position, coalescer, lanes, lanes with outstanding deltas, explicit terminals, events after loss per lane).")
	r.Assume("Finish payloads without a snapshot; a finish whose payload carries a snapshot is documented as self-sufficient (pkg/cluster/FLOW.md) and only counted.")
	r.Note("part_ii", "constructed in-package without a running node: Node{cfg,router,messageEventStreamCache,[messageEventFinishCoalescer],proposer} with started=true; proposer applies commands to fsm.NewStateMachineWithHashSlots on meta.Open(t.TempDir())")

	db, err := metadb.Open(filepath.Join(t.TempDir(), "meta"))
	if err != nil {
		t.Fatalf("open meta db: %v", err)
	}
	defer db.Close()
	owned := make([]uint16, c40HashSlotCount)
	for i := range owned {
		owned[i] = uint16(i)
	}
	sm, err := metafsm.NewStateMachineWithHashSlots(db, 1, owned)
	if err != nil {
		t.Fatalf("state machine: %v", err)
	}
	router, err := c40Router() // only used to hash keys to hash slots (independent of Slot ownership)
	if err != nil {
		t.Fatalf("router: %v", err)
	}
	proposer := &c40Proposer{router: router, sm: sm}
	ctx := context.Background()
	lossKinds := []string{"none", "reset-after-restore", "new-leader-node", "route-authority-loss", "restore-pause-resume",
		"hashslot-rebalance-away-and-back", "hashslot-rebalance-then-elected-target-leader"}
	laneKeys := []string{"", "tool", "think"}
	var clock int64
	sigSeen := map[string]int{}
	violation := func(sig string, w map[string]any) {
		sigSeen[sig]++
		if sigSeen[sig] > 2 { // keep room for other signatures in the bounded violation list
			r.Count("violations_repeated."+sig, 1)
			return
		}
		r.Violation(sig, w)
	}

	n := r.N(8000, 90000)
	stream := uint64(4002)
	if midOnly {
		n, stream = r.N(1500, 25000), 4003
	}
	for i := 0; i < n; i++ {
		if r.Skip(i) {
			continue
		}
		rng := r.Rand(stream, uint64(i))
		coalesce := rng.IntN(4) == 0
		node := c40NewNode(1, proposer, coalesce)
		// a channel whose hash slot H belongs to Slot 1 (led by this node) initially
		channel, hashSlot := "", uint16(0)
		for j := 0; ; j++ {
			channel = fmt.Sprintf("fin-ch-%d-%d", i, j)
			route, err := router.RouteKey(channel)
			if err != nil {
				t.Fatalf("route: %v", err)
			}
			if route.SlotID == 1 {
				hashSlot = route.HashSlot
				break
			}
		}
		msg := fmt.Sprintf("fin-m-%d", i)
		loss := lossKinds[rng.IntN(len(lossKinds))]
		if i%5 == 0 {
			loss = lossKinds[1+rng.IntN(len(lossKinds)-1)]
		}
		midStream := midOnly
		if midOnly && loss == "none" {
			loss = lossKinds[1+rng.IntN(len(lossKinds)-1)]
		}
		nl := 1 + rng.IntN(3)
		lanes := map[string]*c40FinLane{}
		laneOf := func(key string) *c40FinLane {
			if key == "" {
				key = metadb.EventKeyDefault
			}
			if lanes[key] == nil {
				lanes[key] = &c40FinLane{}
			}
			return lanes[key]
		}
		r.BeginCase(i, fmt.Sprintf("loss=%s mid=%v coalesce=%v lanes=%d", loss, midStream, coalesce, nl))
		var hist []string
		ids := []string{}
		knownIDs := map[string]bool{} // ids seen by the CURRENT cache generation
		lost := false
		aborted := false
		send := func(typ, key string, payload []byte, id string) error {
			clock++
			ev := metadb.MessageEventAppend{ChannelID: channel, ChannelType: 2, ClientMsgNo: msg, EventID: id, EventKey: key, EventType: typ,
				OccurredAt: 1000 + clock, UpdatedAt: 2000 + clock, Payload: payload}
			var err error
			if r.Guard("Node.AppendMessageEvent", map[string]any{"case": i, "type": typ, "history": hist}, func() { _, err = node.AppendMessageEvent(ctx, ev) }) {
				aborted = true
			}
			hist = append(hist, fmt.Sprintf("%s(%q,%s)->%v", strings.TrimPrefix(typ, "stream."), key, id, err))
			return err
		}
		cacheEvent := func(j int) {
			key := laneKeys[rng.IntN(nl)]
			id := fmt.Sprintf("e%d", j)
			dup := false
			if len(ids) > 0 && rng.IntN(6) == 0 {
				id, dup = ids[rng.IntN(len(ids))], true
			}
			var typ string
			var payload []byte
			switch rng.IntN(6) {
			case 0:
				typ = metadb.EventTypeStreamOpen
			case 1:
				typ = metadb.EventTypeStreamSnapshot
				payload, _ = json.Marshal(map[string]string{"kind": "text", "text": fmt.Sprintf("S%d;", j)})
			default:
				typ = metadb.EventTypeStreamDelta
				payload, _ = json.Marshal(map[string]string{"kind": "text", "delta": fmt.Sprintf("d%d;", j)})
			}
			err := send(typ, key, payload, id)
			r.Count("cache_events."+typ, 1)
			if err != nil {
				r.Count("cache_events.errors", 1)
				return
			}
			if dup {
				r.Count("cache_events.duplicate_id", 1)
			}
			// The cache answers an id its current session already saw without applying it.
			// After a cache loss the new session has never seen the older ids.
			if knownIDs[id] {
				return
			}
			knownIDs[id] = true
			if !dup {
				ids = append(ids, id)
			}
			l := laneOf(key)
			if l.terminal || typ == metadb.EventTypeStreamOpen {
				return
			}
			l.fold = c40FoldText(l.fold, payload, typ)
			l.acked++
			if lost {
				l.afterLoss++
			} else {
				l.beforeLoss++
			}
		}
		steps := 2 + rng.IntN(11)
		terminalAt := -1
		if rng.IntN(3) == 0 {
			terminalAt = 1 + rng.IntN(steps)
		}
		for j := 0; j < steps && !aborted; j++ {
			cacheEvent(j)
			if j == terminalAt {
				key := laneKeys[rng.IntN(nl)]
				typ := []string{metadb.EventTypeStreamClose, metadb.EventTypeStreamError, metadb.EventTypeStreamCancel}[rng.IntN(3)]
				payload := []byte(`{"end_reason":2,"error":"x"}`)
				if err := send(typ, key, payload, fmt.Sprintf("t%d", j)); err == nil {
					laneOf(key).terminal = true
					r.Count("explicit_terminal_events", 1)
				}
			}
		}
		if aborted {
			continue
		}
		outstanding := 0 // lanes with acknowledged payload events and no durable terminal
		for _, l := range lanes {
			if l.acked > 0 && !l.terminal {
				outstanding++
			}
		}
		// ---- leader cache loss
		// install applies a routing transition through the production path of node x
		install := func(x *Node, what string, update func(r *routing.Router) error) {
			if err := x.updateRouteAuthorityTable(func() error { return update(x.router) }); err != nil {
				r.Inconclusive(fmt.Sprintf("case %d: install %s: %v", i, what, err))
				aborted = true
			}
			hist = append(hist, fmt.Sprintf("ROUTING(node %d):%s", x.cfg.NodeID, what))
		}
		leaders := func(status ...routing.SlotStatus) func(*routing.Router) error {
			return func(r *routing.Router) error { r.UpdateSlotLeaders(status); return nil }
		}
		snapshot := func(rev uint64, moved bool) func(*routing.Router) error {
			return func(r *routing.Router) error { return r.UpdateControlSnapshot(c40ControlSnapshot(rev, moved, hashSlot)) }
		}
		// interim: while this node has no authority over H the OTHER leader (node 2, its
		// own cache, same durable proposer) acknowledges further cache-only events
		interimEvents := 0
		interim := func(away func(*routing.Router) error, back func(*routing.Router) error, awayName, backName string) {
			if rng.IntN(2) == 0 {
				return
			}
			other := c40NewNode(2, proposer, false)
			install(other, awayName, away)
			self := node
			node, knownIDs = other, map[string]bool{}
			lost = true
			m := 1 + rng.IntN(3)
			for j := 0; j < m && !aborted; j++ {
				cacheEvent(500 + j)
				interimEvents++
			}
			install(other, backName, back) // node 2 loses authority over H again
			node = self
			r.Count("loss.with_interim_events_acknowledged_by_other_leader", 1)
		}
		switch loss {
		case "reset-after-restore":
			node.messageEventStreamCache.resetAfterRestore()
		case "new-leader-node":
			node = c40NewNode(1, proposer, coalesce) // same durable state, empty cache
		case "route-authority-loss":
			// Slot 1 elects node 2, later node 1 again
			away := leaders(routing.SlotStatus{SlotID: 1, Leader: 2, LeaderTerm: 10})
			back := leaders(routing.SlotStatus{SlotID: 1, Leader: 1, LeaderTerm: 11})
			install(node, "slot1-leader->node2", away)
			interim(away, back, "slot1-leader->node2", "slot1-leader->node1")
			install(node, "slot1-leader->node1", back)
		case "hashslot-rebalance-away-and-back":
			// H moves to Slot 2 (led by node 2) and back; NO Slot leader changes at any point
			away, back := snapshot(2, true), snapshot(3, false)
			install(node, "H->slot2", away)
			interim(away, back, "H->slot2", "H->slot1")
			install(node, "H->slot1", back)
		case "hashslot-rebalance-then-elected-target-leader":
			// H moves to Slot 2 (led by node 2); later this node is elected leader of Slot 2
			away := snapshot(2, true)
			back := leaders(routing.SlotStatus{SlotID: 2, Leader: 1, LeaderTerm: 10})
			install(node, "H->slot2", away)
			interim(away, back, "H->slot2", "slot2-leader->node1")
			install(node, "slot2-leader->node1", back)
		case "restore-pause-resume":
			node.messageEventStreamCache.pauseForRestore()
			if rng.IntN(2) == 0 {
				// an event during the pause is refused (not acknowledged): evidence only
				if err := send(metadb.EventTypeStreamDelta, "", []byte(`{"kind":"text","delta":"during-restore"}`), "paused"); err == nil {
					r.Count("cache_events.accepted_while_paused", 1)
				} else {
					r.Count("cache_events.refused_while_paused", 1)
				}
			}
			node.messageEventStreamCache.resumeAfterRestore()
		}
		if aborted {
			continue
		}
		// lanes with acknowledged non-durable deltas at the moment of the finish-relevant loss
		outstanding = 0
		for _, l := range lanes {
			if l.acked > 0 && !l.terminal {
				outstanding++
			}
		}
		if loss != "none" {
			lost = true
			knownIDs = map[string]bool{}
			hist = append(hist, "LOSS:"+loss)
			r.Count("loss."+loss, 1)
		}
		afterLossEvents := 0
		if midStream {
			m := 1 + rng.IntN(4)
			for j := 0; j < m && !aborted; j++ {
				cacheEvent(1000 + j)
				afterLossEvents++
			}
		}
		if aborted {
			continue
		}
		// ---- finish
		before := proposer.callCount()
		finishErr := error(nil)
		done := verifkit.Watchdog(120*time.Second, func() {
			finishErr = send(metadb.EventTypeStreamFinish, "", []byte(`{"end_reason":3}`), "finish")
		})
		if !done {
			r.Inconclusive(fmt.Sprintf("case %d: finish did not return within the watchdog", i))
			break
		}
		if aborted {
			continue
		}
		proposals := proposer.callCount() - before
		states, err := db.ForHashSlot(hashSlot).ListMessageEventStates(ctx, channel, 2, msg, 100)
		if err != nil {
			r.Inconclusive("ListMessageEventStates: " + err.Error())
			break
		}
		durable := map[string]metadb.MessageEventState{}
		for _, s := range states {
			durable[s.EventKey] = s
		}
		fin, finExists := durable[metadb.EventKeyFinish]
		finClosed := finExists && fin.Status == metadb.EventStatusClosed
		r.Eval(1)
		class := "no-loss"
		if lost && !midStream {
			class = "loss-before-finish"
		} else if lost {
			class = "loss-mid-stream"
		}
		r.Count("finish."+class+"."+map[bool]string{true: "ok", false: "error"}[finishErr == nil], 1)
		w := map[string]any{"case": i, "loss": loss, "coalescer": coalesce, "finish_error": fmt.Sprint(finishErr), "finish_row": fmt.Sprintf("%+v", fin),
			"proposals_by_finish": proposals, "interim_events_by_other_leader": interimEvents, "history": hist}
		lostDeltas := lost && outstanding > 0
		// G: a closed finish marker implies every lane is durable with the full fold
		dropped := []string{}
		if finClosed {
			for key, l := range lanes {
				if l.acked == 0 {
					continue
				}
				s, ok := durable[key]
				if !ok {
					dropped = append(dropped, fmt.Sprintf("%s: no durable lane, acknowledged fold %q", key, l.fold))
				} else if !c40JSONEqual(s.SnapshotPayload, l.fold) {
					dropped = append(dropped, fmt.Sprintf("%s: durable %q, acknowledged fold %q", key, s.SnapshotPayload, l.fold))
				}
			}
		}
		w["dropped"] = dropped
		switch {
		case class == "loss-before-finish" && lostDeltas && finishErr == nil:
			violation("finish-succeeded-after-cache-loss:"+loss, w)
		case class == "loss-before-finish" && lostDeltas && finClosed:
			violation("closed-finish-row-written-by-failed-finish-after-cache-loss", w)
		case class == "loss-mid-stream" && len(dropped) > 0:
			violation("finish-completed-projection-without-deltas-acknowledged-before-cache-loss", w)
		case len(dropped) > 0:
			violation("finish-completed-projection-differs-from-acknowledged-deltas:"+class, w)
		case finishErr != nil && finClosed:
			violation("closed-finish-row-written-by-failed-finish", w)
		}
		if finishErr != nil && !lostDeltas {
			r.Count("finish.error_without_lost_deltas(allowed)", 1)
			if !lost && outstanding > 0 {
				r.Count("finish.error_with_intact_cache_and_outstanding_deltas(allowed)", 1)
			}
		}
		if finishErr != nil && proposals > 0 {
			r.Count("finish.failed_after_proposing", 1)
		}
		if lostDeltas {
			term := 0
			for _, l := range lanes {
				if l.terminal {
					term++
				}
			}
			r.Nontrivial(fmt.Sprintf("%s|mid=%v|co=%v|lanes=%d|out=%d|term=%d|after=%d|interim=%d", loss, midStream, coalesce, len(lanes), outstanding, term, afterLossEvents, interimEvents))
		}
		if r.WantSample() && lostDeltas {
			r.Sample(map[string]any{"case": i, "loss": loss, "mid_stream": midStream, "finish_error": fmt.Sprint(finishErr), "finish_row_exists": finExists, "history": hist})
		}
	}
}
