//go:build verif

// C40 part (i) — the durable message event projection is monotonic.
//
// Reference-reducer monitor over the real pkg/db/meta AppendMessageEvent in all
// its entry points: the shard API, the write-batch API and the slot state
// machine commands EncodeAppendMessageEventCommand /
// EncodeAppendMessageEventsCommand (results decoded from the apply bytes).
//
// The reference reducer below is written from the statement and from
// docs/superpowers/specs/2026-07-06-message-event-projection-design.md
// ("Reducer Semantics"), not from the implementation:
//
//   - the per-message event sequence grows by exactly one on every applied
//     event and is unchanged by anything else;
//   - a lane that reached closed / error / cancelled never changes again; an
//     event sent to it returns the terminal state without advancing anything;
//   - an event id that was applied before returns the original
//     (event key, sequence, status) and changes nothing;
//   - delta folds {"kind":"text","delta":d} into {"kind":"text","text":...},
//     any other delta replaces the payload, snapshot replaces it, terminal
//     events optionally carry {"snapshot":..,"end_reason":..,"error":..};
//   - stream.finish closes the reserved lane "__finish__".
//
// Observation: results of every call; after every non-applying call the whole
// key space of the hash slot (ExportHashSlotSnapshot) must be byte-identical;
// after every chunk the lanes (ListMessageEventStates) and the cursor row
// (InspectScan) must equal the model; the applied-id rows are compared too but
// only counted (which ids are recorded is an implementation choice); every
// lane observed terminal is frozen and compared again later independently of
// the model.
//
// Interpretation notes (to stay silent on correct code):
//   - the State attached to a LATE replay is only required to carry the
//     original key/sequence/status (the lane has moved on; the implementation
//     documents a compact state there); an immediate replay must return the
//     full identical state;
//   - text payloads are compared as decoded (kind, text), other payloads
//     byte-wise;
//   - events answered "terminal, not applied" are not idempotency-recorded by
//     the statement; replaying them must simply give the same answer again.
package c40_test

import (
	"bytes"
	"context"
	"encoding/json"
	"fmt"
	"math/rand/v2"
	"path/filepath"
	"reflect"
	"sort"
	"strings"
	"testing"

	metadb "github.com/WuKongIM/WuKongIM/pkg/db/meta"
	"github.com/WuKongIM/WuKongIM/pkg/slot/fsm"
	"github.com/WuKongIM/WuKongIM/pkg/slot/multiraft"
	"github.com/WuKongIM/WuKongIM/pkg/verifkit"
)

// ---------------------------------------------------------------------------
// reference reducer

type c40Lane struct {
	Status     string
	Seq        uint64
	LastID     string
	LastType   string
	Visibility string
	OccurredAt int64
	Payload    []byte
	EndReason  uint8
	Err        string
	UpdatedAt  int64
}

type c40Applied struct {
	Key    string
	Seq    uint64
	Status string
}

type c40Msg struct {
	Cursor  uint64
	Lanes   map[string]*c40Lane
	Applied map[string]c40Applied
}

type c40Verdict struct {
	Kind   string // "applied" | "replay" | "terminal"
	Key    string
	Seq    uint64
	Status string
	Lane   c40Lane // lane state the result must describe (applied / terminal / immediate replay)
	Full   bool    // the full lane state is promised in the result
}

func c40Terminal(s string) bool {
	return s == metadb.EventStatusClosed || s == metadb.EventStatusError || s == metadb.EventStatusCancelled
}

func c40FoldDelta(existing, payload []byte) []byte {
	var d struct {
		Kind  string `json:"kind"`
		Delta string `json:"delta"`
	}
	if json.Unmarshal(payload, &d) != nil || d.Kind != "text" {
		return append([]byte(nil), payload...)
	}
	var cur struct {
		Kind string `json:"kind"`
		Text string `json:"text"`
	}
	text := ""
	if json.Unmarshal(existing, &cur) == nil && cur.Kind == "text" {
		text = cur.Text
	}
	out, _ := json.Marshal(map[string]string{"kind": "text", "text": text + d.Delta})
	return out
}

type c40TerminalPayload struct {
	Snapshot  json.RawMessage `json:"snapshot"`
	EndReason uint8           `json:"end_reason"`
	Error     string          `json:"error"`
}

func (m *c40Msg) apply(ev metadb.MessageEventAppend) c40Verdict {
	key := strings.TrimSpace(ev.EventKey)
	if key == "" {
		key = metadb.EventKeyDefault
	}
	typ := strings.ToLower(strings.TrimSpace(ev.EventType))
	if typ == metadb.EventTypeStreamFinish {
		key = metadb.EventKeyFinish
	}
	vis := ev.Visibility
	if vis == "" {
		vis = metadb.VisibilityPublic
	}
	if rec, ok := m.Applied[ev.EventID]; ok {
		v := c40Verdict{Kind: "replay", Key: rec.Key, Seq: rec.Seq, Status: rec.Status}
		if l := m.Lanes[rec.Key]; l != nil && l.LastID == ev.EventID && l.Seq == rec.Seq {
			v.Lane, v.Full = *l, true
		}
		return v
	}
	lane := m.Lanes[key]
	if lane != nil && c40Terminal(lane.Status) {
		return c40Verdict{Kind: "terminal", Key: key, Seq: lane.Seq, Status: lane.Status, Lane: *lane, Full: true}
	}
	if lane == nil {
		lane = &c40Lane{Status: metadb.EventStatusOpen}
		m.Lanes[key] = lane
	}
	switch typ {
	case metadb.EventTypeStreamOpen:
		lane.Status = metadb.EventStatusOpen
	case metadb.EventTypeStreamDelta:
		lane.Status = metadb.EventStatusOpen
		lane.Payload = c40FoldDelta(lane.Payload, ev.Payload)
	case metadb.EventTypeStreamSnapshot:
		lane.Status = metadb.EventStatusOpen
		lane.Payload = append([]byte(nil), ev.Payload...)
	case metadb.EventTypeStreamClose, metadb.EventTypeStreamError, metadb.EventTypeStreamCancel:
		var tp c40TerminalPayload
		ok := json.Unmarshal(ev.Payload, &tp) == nil
		if ok && len(tp.Snapshot) > 0 && string(tp.Snapshot) != "null" {
			lane.Payload = append([]byte(nil), tp.Snapshot...)
		}
		switch typ {
		case metadb.EventTypeStreamClose:
			lane.Status = metadb.EventStatusClosed
			if ok {
				lane.EndReason = tp.EndReason
			} else {
				lane.EndReason = 0
			}
		case metadb.EventTypeStreamError:
			lane.Status = metadb.EventStatusError
			if ok {
				lane.Err = tp.Error
			} else {
				lane.Err = ""
			}
		default:
			lane.Status = metadb.EventStatusCancelled
		}
	case metadb.EventTypeStreamFinish:
		lane.Status = metadb.EventStatusClosed
	}
	m.Cursor++
	lane.Seq = m.Cursor
	lane.LastID = ev.EventID
	lane.LastType = typ
	lane.Visibility = vis
	lane.OccurredAt = ev.OccurredAt
	lane.UpdatedAt = ev.UpdatedAt
	m.Applied[ev.EventID] = c40Applied{Key: key, Seq: lane.Seq, Status: lane.Status}
	return c40Verdict{Kind: "applied", Key: key, Seq: lane.Seq, Status: lane.Status, Lane: *lane, Full: true}
}

func c40PayloadEqual(a, b []byte) bool {
	if bytes.Equal(a, b) || (len(a) == 0 && len(b) == 0) {
		return true
	}
	var x, y struct {
		Kind string `json:"kind"`
		Text string `json:"text"`
	}
	if json.Unmarshal(a, &x) == nil && json.Unmarshal(b, &y) == nil && x.Kind == "text" && y.Kind == "text" {
		var mx, my map[string]any
		_ = json.Unmarshal(a, &mx)
		_ = json.Unmarshal(b, &my)
		return reflect.DeepEqual(mx, my)
	}
	return false
}

func c40LaneMatches(l c40Lane, s metadb.MessageEventState) string {
	switch {
	case s.Status != l.Status:
		return fmt.Sprintf("status %q want %q", s.Status, l.Status)
	case s.LastMsgEventSeq != l.Seq:
		return fmt.Sprintf("last_msg_event_seq %d want %d", s.LastMsgEventSeq, l.Seq)
	case s.LastEventID != l.LastID:
		return fmt.Sprintf("last_event_id %q want %q", s.LastEventID, l.LastID)
	case s.LastEventType != l.LastType:
		return fmt.Sprintf("last_event_type %q want %q", s.LastEventType, l.LastType)
	case s.LastVisibility != l.Visibility:
		return fmt.Sprintf("last_visibility %q want %q", s.LastVisibility, l.Visibility)
	case s.LastOccurredAt != l.OccurredAt:
		return fmt.Sprintf("last_occurred_at %d want %d", s.LastOccurredAt, l.OccurredAt)
	case !c40PayloadEqual(s.SnapshotPayload, l.Payload):
		return fmt.Sprintf("snapshot_payload %q want %q", s.SnapshotPayload, l.Payload)
	case s.EndReason != l.EndReason:
		return fmt.Sprintf("end_reason %d want %d", s.EndReason, l.EndReason)
	case s.Error != l.Err:
		return fmt.Sprintf("error %q want %q", s.Error, l.Err)
	case s.UpdatedAt != l.UpdatedAt:
		return fmt.Sprintf("updated_at %d want %d", s.UpdatedAt, l.UpdatedAt)
	}
	return ""
}

// ---------------------------------------------------------------------------
// generator

type c40Step struct {
	Ev   metadb.MessageEventAppend
	Code string // abstract shape for the fingerprint
	Msg  int
}

var c40LaneKeys = []string{"", "main", "tool", "think", "aux"}

func c40GenPayload(rng *rand.Rand, typ string, n int) []byte {
	word := func() string {
		alphabet := []string{"a", "b", "Z", " ", "é", "用", "\"", "\\", "<", "&", "1", "\n"}
		var sb strings.Builder
		for i := 0; i < 1+rng.IntN(4); i++ {
			sb.WriteString(alphabet[rng.IntN(len(alphabet))])
		}
		return sb.String()
	}
	js := func(v any) []byte { b, _ := json.Marshal(v); return b }
	switch typ {
	case metadb.EventTypeStreamDelta:
		switch rng.IntN(8) {
		case 0:
			return js(map[string]any{"kind": "tool", "name": word(), "n": n})
		case 1:
			return []byte("raw-" + word())
		default:
			return js(map[string]any{"kind": "text", "delta": word()})
		}
	case metadb.EventTypeStreamSnapshot:
		if rng.IntN(4) == 0 {
			return js(map[string]any{"kind": "card", "title": word()})
		}
		return js(map[string]any{"kind": "text", "text": "S" + word()})
	case metadb.EventTypeStreamClose, metadb.EventTypeStreamError, metadb.EventTypeStreamCancel:
		switch rng.IntN(6) {
		case 0:
			return nil
		case 1:
			return []byte("not json " + word())
		case 2:
			return js(map[string]any{"snapshot": nil, "end_reason": rng.IntN(9)})
		case 3:
			return js(map[string]any{"snapshot": map[string]any{"kind": "text", "text": "F" + word()}, "end_reason": rng.IntN(9), "error": "e" + word()})
		default:
			return js(map[string]any{"end_reason": rng.IntN(9), "error": "boom" + word()})
		}
	case metadb.EventTypeStreamFinish:
		return js(map[string]any{"end_reason": rng.IntN(9)})
	}
	if rng.IntN(2) == 0 {
		return nil
	}
	return []byte("{}")
}

func c40GenSequence(rng *rand.Rand, channel string, ctype int64, msgs []string, clock *int64) []c40Step {
	n := 4 + rng.IntN(14)
	nl := 1 + rng.IntN(3)
	lanes := make([]string, nl)
	for i := range lanes {
		lanes[i] = c40LaneKeys[rng.IntN(len(c40LaneKeys))]
	}
	ids := make([][]string, len(msgs))
	steps := make([]c40Step, 0, n)
	types := []string{metadb.EventTypeStreamOpen, metadb.EventTypeStreamDelta, metadb.EventTypeStreamDelta, metadb.EventTypeStreamDelta, metadb.EventTypeStreamSnapshot,
		metadb.EventTypeStreamClose, metadb.EventTypeStreamError, metadb.EventTypeStreamCancel, metadb.EventTypeStreamFinish, metadb.EventTypeStreamDelta}
	short := map[string]string{metadb.EventTypeStreamOpen: "o", metadb.EventTypeStreamDelta: "d", metadb.EventTypeStreamSnapshot: "s", metadb.EventTypeStreamClose: "c",
		metadb.EventTypeStreamError: "e", metadb.EventTypeStreamCancel: "x", metadb.EventTypeStreamFinish: "f"}
	for i := 0; i < n; i++ {
		mi := rng.IntN(len(msgs))
		li := rng.IntN(nl)
		typ := types[rng.IntN(len(types))]
		*clock++
		ev := metadb.MessageEventAppend{ChannelID: channel, ChannelType: ctype, ClientMsgNo: msgs[mi], EventKey: lanes[li], EventType: typ,
			OccurredAt: 1_000_000 + *clock, UpdatedAt: 2_000_000 + *clock, Payload: c40GenPayload(rng, typ, i)}
		if rng.IntN(3) == 0 {
			ev.Visibility = []string{metadb.VisibilityPublic, metadb.VisibilityPrivate, metadb.VisibilityRestricted}[rng.IntN(3)]
		}
		dup := ""
		switch x := rng.IntN(10); {
		case x < 2 && len(ids[mi]) > 0: // immediate duplicate of the previous id of this message
			ev.EventID = ids[mi][len(ids[mi])-1]
			dup = "I"
		case x < 4 && len(ids[mi]) > 1: // late duplicate
			ev.EventID = ids[mi][rng.IntN(len(ids[mi])-1)]
			dup = "L"
		default:
			ev.EventID = fmt.Sprintf("ev-%s-%d", msgs[mi], len(ids[mi]))
			ids[mi] = append(ids[mi], ev.EventID)
		}
		steps = append(steps, c40Step{Ev: ev, Msg: mi, Code: fmt.Sprintf("%s%d%s", short[typ], li, dup)})
	}
	return steps
}

// ---------------------------------------------------------------------------
// drivers for the four entry points

type c40Env struct {
	r    *verifkit.Run
	ctx  context.Context
	db   *metadb.DB
	sm   multiraft.BatchStateMachine
	next uint64
}

func (e *c40Env) call(path string, hs uint16, evs []metadb.MessageEventAppend) ([]metadb.MessageEventAppendResult, error) {
	switch path {
	case "shard":
		out := make([]metadb.MessageEventAppendResult, 0, len(evs))
		for _, ev := range evs {
			res, err := e.db.ForHashSlot(hs).AppendMessageEvent(e.ctx, ev)
			if err != nil {
				return nil, err
			}
			out = append(out, res)
		}
		return out, nil
	case "batch":
		wb := e.db.NewWriteBatch()
		defer wb.Close()
		out := make([]metadb.MessageEventAppendResult, 0, len(evs))
		for _, ev := range evs {
			res, err := wb.AppendMessageEvent(hs, ev)
			if err != nil {
				return nil, err
			}
			out = append(out, res)
		}
		return out, wb.Commit()
	case "fsm1":
		out := make([]metadb.MessageEventAppendResult, 0, len(evs))
		cmds := make([]multiraft.Command, 0, len(evs))
		for _, ev := range evs {
			e.next++
			cmds = append(cmds, multiraft.Command{SlotID: 1, HashSlot: hs, Index: e.next, Term: 1, Data: fsm.EncodeAppendMessageEventCommand(ev)})
		}
		res, err := e.sm.ApplyBatch(e.ctx, cmds)
		if err != nil {
			return nil, err
		}
		for _, b := range res {
			r, err := fsm.DecodeAppendMessageEventResult(b)
			if err != nil {
				return nil, fmt.Errorf("decode result %q: %w", b, err)
			}
			out = append(out, r)
		}
		return out, nil
	default: // "fsmN": one multi-event command
		e.next++
		b, err := e.sm.Apply(e.ctx, multiraft.Command{SlotID: 1, HashSlot: hs, Index: e.next, Term: 1, Data: fsm.EncodeAppendMessageEventsCommand(evs)})
		if err != nil {
			return nil, err
		}
		return fsm.DecodeAppendMessageEventResults(b)
	}
}

func (e *c40Env) slotBytes(hs uint16) ([]byte, error) {
	snap, err := e.db.ExportHashSlotSnapshot(e.ctx, []uint16{hs})
	return snap.Data, err
}

func c40ScanRows(ctx context.Context, db *metadb.DB, table string, hs uint16, channel, msg string) ([]metadb.InspectRow, error) {
	res, err := metadb.InspectScan(ctx, db.MetaDB(), metadb.InspectScanRequest{Table: table, HashSlot: metadb.HashSlot(hs), HashSlotSet: true,
		Filters: map[string]any{"channel_id": channel, "client_msg_no": msg}, Limit: 200})
	if err != nil {
		return nil, err
	}
	if !res.Done {
		return nil, fmt.Errorf("inspect scan of %s not exhausted", table)
	}
	return res.Rows, nil
}

const c40HashSlots = 3000

func TestVerifC40(t *testing.T) {
	r := verifkit.Start(t, "C40", "reducer")
	defer r.Finish()
	r.SetRule("One case = one channel with 1-2 stream messages and 1-3 event lanes; 4-17 PRNG events (open, delta text/non-text/raw, snapshot, close/error/cancel with and without embedded snapshot or with garbage payload, finish) with immediate and late duplicate event ids (also with a different type/lane/payload than the original) and events after a terminal one, cut into chunks that go through the shard API, the write-batch API, one state-machine command per event or one multi-event state-machine command; then every id is replayed once more in a random order. Non-trivial = the sequence contains a terminal event AND (a duplicate id OR an event sent to an already terminal lane); distinct = the abstract event string (type, lane index, duplicate kind, entry point per chunk), payload bytes excluded.")
	r.Assume("Reference reducer written from the statement and the design spec (docs/superpowers/specs/2026-07-06-message-event-projection-design.md); a late replay is only required to return the original (event key, sequence, status).")

	db, err := metadb.Open(filepath.Join(t.TempDir(), "meta"))
	if err != nil {
		t.Fatalf("open meta db: %v", err)
	}
	defer db.Close()
	owned := make([]uint16, c40HashSlots)
	for i := range owned {
		owned[i] = uint16(i + 1)
	}
	sm, err := fsm.NewStateMachineWithHashSlots(db, 1, owned)
	if err != nil {
		t.Fatalf("state machine: %v", err)
	}
	env := &c40Env{r: r, ctx: context.Background(), db: db, sm: sm.(multiraft.BatchStateMachine)}
	paths := []string{"shard", "batch", "fsm1", "fsmN"}
	var clock int64
	sigSeen := map[string]int{}
	violation := func(sig string, w any) {
		sigSeen[sig]++
		if sigSeen[sig] > 2 { // keep room for other signatures in the bounded violation list
			r.Count("violations_repeated."+sig, 1)
			return
		}
		r.Violation(sig, w)
	}

	n := r.N(2400, 22000)
	for i := 0; i < n; i++ {
		if r.Skip(i) {
			continue
		}
		rng := r.Rand(40, uint64(i))
		hs := uint16(1 + i%c40HashSlots)
		channel := fmt.Sprintf("ch%d", i)
		ctype := int64(1 + rng.IntN(2))
		msgs := []string{fmt.Sprintf("m%da", i)}
		if rng.IntN(3) == 0 {
			msgs = append(msgs, fmt.Sprintf("m%db", i))
		}
		steps := c40GenSequence(rng, channel, ctype, msgs, &clock)
		models := make([]*c40Msg, len(msgs))
		for j := range models {
			models[j] = &c40Msg{Lanes: map[string]*c40Lane{}, Applied: map[string]c40Applied{}}
		}
		frozen := map[string]metadb.MessageEventState{} // msg|lane -> first observed terminal row
		var shape strings.Builder
		hasTerminal, hasDup, hasAfterTerminal := false, false, false
		r.BeginCase(i, fmt.Sprintf("hs=%d msgs=%d steps=%d", hs, len(msgs), len(steps)))
		bad := false

		// runChunk applies evs through path and checks results + rows
		runChunk := func(path string, chunk []c40Step, phase string) {
			evs := make([]metadb.MessageEventAppend, len(chunk))
			verdicts := make([]c40Verdict, len(chunk))
			prevCursor := make([]uint64, len(chunk))
			anyApplied := false
			for j, st := range chunk {
				evs[j] = st.Ev
				prevCursor[j] = models[st.Msg].Cursor
				verdicts[j] = models[st.Msg].apply(st.Ev)
				switch verdicts[j].Kind {
				case "applied":
					anyApplied = true
					if c40Terminal(verdicts[j].Status) {
						hasTerminal = true
					}
				case "replay":
					hasDup = true
				case "terminal":
					hasAfterTerminal = true
				}
				r.Count("events."+phase+"."+verdicts[j].Kind, 1)
				r.Count("events.type."+st.Ev.EventType, 1)
			}
			r.Count("chunks."+path, 1)
			var before []byte
			if !anyApplied {
				if before, err = env.slotBytes(hs); err != nil {
					r.Inconclusive("export before: " + err.Error())
					bad = true
					return
				}
			}
			var results []metadb.MessageEventAppendResult
			var callErr error
			if r.Guard("AppendMessageEvent:"+path, map[string]any{"case": i, "events": evs}, func() { results, callErr = env.call(path, hs, evs) }) {
				bad = true
				return
			}
			if callErr != nil {
				// an error return for a well-formed event is not excluded by the statement:
				// undecided, not a refutation (never observed on the unchanged tree)
				r.Count("append_errors."+path, 1)
				if sigSeen["append-error"] == 0 {
					r.Inconclusive(fmt.Sprintf("case %d: AppendMessageEvent via %s returned %v for %v", i, path, callErr, c40Describe(evs)))
				}
				sigSeen["append-error"]++
				bad = true
				return
			}
			if len(results) != len(evs) {
				violation("result-count-mismatch:"+path, map[string]any{"case": i, "want": len(evs), "got": len(results)})
				bad = true
				return
			}
			for j, res := range results {
				v := verdicts[j]
				r.Eval(1)
				w := map[string]any{"case": i, "path": path, "phase": phase, "event": c40Describe(evs[j : j+1]), "model": fmt.Sprintf("%+v", v),
					"result": fmt.Sprintf("key=%s seq=%d status=%s state=%+v", res.EventKey, res.MsgEventSeq, res.Status, res.State), "history": shape.String()}
				if res.EventID != evs[j].EventID || res.ClientMsgNo != evs[j].ClientMsgNo {
					violation("result-for-wrong-event:"+path, w)
					bad = true
					continue
				}
				switch v.Kind {
				case "applied":
					if res.MsgEventSeq != prevCursor[j]+1 {
						violation("applied-event-sequence-not-plus-one", w)
						bad = true
					}
				case "replay":
					if res.MsgEventSeq != v.Seq {
						violation("replayed-event-id-sequence-differs-from-original", w)
						bad = true
					}
				case "terminal":
					if res.MsgEventSeq != v.Seq || res.Status != v.Status {
						violation("terminal-lane-changed-by-later-event", w)
						bad = true
					}
				}
				if res.EventKey != v.Key || res.Status != v.Status || res.MsgEventSeq != v.Seq {
					violation("result-differs-from-reference:"+v.Kind, w)
					bad = true
					continue
				}
				if res.State.LastMsgEventSeq != v.Seq || res.State.Status != v.Status || res.State.EventKey != v.Key {
					violation("result-state-core-differs:"+v.Kind, w)
					bad = true
					continue
				}
				if v.Full {
					if why := c40LaneMatches(v.Lane, res.State); why != "" {
						w["why"] = why
						violation("result-state-differs-from-reference:"+v.Kind, w)
						bad = true
					}
				}
			}
			if !anyApplied {
				after, err := env.slotBytes(hs)
				if err != nil {
					r.Inconclusive("export after: " + err.Error())
					bad = true
					return
				}
				r.Eval(1)
				if !bytes.Equal(before, after) {
					violation("non-applying-events-changed-rows:"+path, map[string]any{"case": i, "phase": phase, "events": c40Describe(evs), "history": shape.String()})
					bad = true
				}
			}
			// rows vs model, frozen terminal lanes
			for mi, msg := range msgs {
				states, err := db.ForHashSlot(hs).ListMessageEventStates(env.ctx, channel, ctype, msg, 100)
				if err != nil {
					r.Inconclusive("ListMessageEventStates: " + err.Error())
					bad = true
					return
				}
				m := models[mi]
				r.Eval(1)
				if len(states) != len(m.Lanes) {
					violation("lane-set-differs-from-reference", map[string]any{"case": i, "msg": msg, "rows": len(states), "model": len(m.Lanes), "history": shape.String()})
					bad = true
				}
				for _, s := range states {
					fk := msg + "|" + s.EventKey
					if f, ok := frozen[fk]; ok {
						if !reflect.DeepEqual(f, s) {
							violation("terminal-lane-row-changed", map[string]any{"case": i, "lane": fk, "frozen": fmt.Sprintf("%+v", f), "now": fmt.Sprintf("%+v", s), "history": shape.String()})
							bad = true
						}
					} else if c40Terminal(s.Status) {
						frozen[fk] = s
					}
					l := m.Lanes[s.EventKey]
					if l == nil {
						violation("unexpected-lane-row", map[string]any{"case": i, "lane": fk, "row": fmt.Sprintf("%+v", s)})
						bad = true
						continue
					}
					if why := c40LaneMatches(*l, s); why != "" {
						violation("lane-row-differs-from-reference", map[string]any{"case": i, "lane": fk, "why": why, "row": fmt.Sprintf("%+v", s), "history": shape.String()})
						bad = true
					}
				}
				cur, err := c40ScanRows(env.ctx, db, "message_event_cursor", hs, channel, msg)
				if err != nil {
					r.Inconclusive("inspect cursor: " + err.Error())
					bad = true
					return
				}
				var got uint64
				if len(cur) == 1 {
					got, _ = cur[0]["last_msg_event_seq"].(uint64)
				}
				r.Eval(1)
				if len(cur) > 1 || got != m.Cursor {
					violation("cursor-differs-from-applied-event-count", map[string]any{"case": i, "msg": msg, "cursor_rows": len(cur), "cursor": got, "applied_events": m.Cursor, "history": shape.String()})
					bad = true
				}
				app, err := c40ScanRows(env.ctx, db, "message_event_applied", hs, channel, msg)
				if err != nil {
					r.Inconclusive("inspect applied: " + err.Error())
					bad = true
					return
				}
				r.Eval(1)
				// Which ids the implementation records is its own business (the statement only
				// promises that a replay is not applied twice): evidence, not a verdict.
				if len(app) != len(m.Applied) {
					r.Count("applied_id_rows.count_differs_from_reference", 1)
				}
				for _, row := range app {
					id, _ := row["event_id"].(string)
					rec, ok := m.Applied[id]
					seq, _ := row["msg_event_seq"].(uint64)
					key, _ := row["event_key"].(string)
					status, _ := row["status"].(string)
					if !ok || rec.Seq != seq || rec.Key != key || rec.Status != status {
						r.Count("applied_id_rows.row_differs_from_reference", 1)
					} else {
						r.Count("applied_id_rows.match", 1)
					}
				}
			}
		}

		for off := 0; off < len(steps) && !bad; {
			path := paths[rng.IntN(len(paths))]
			sz := 1
			if path != "shard" || rng.IntN(2) == 0 {
				sz = 1 + rng.IntN(4)
			}
			if off+sz > len(steps) {
				sz = len(steps) - off
			}
			chunk := steps[off : off+sz]
			shape.WriteString(path[:1] + strings.ToUpper(path[len(path)-1:]) + "[")
			for _, st := range chunk {
				shape.WriteString(st.Code + " ")
			}
			shape.WriteString("]")
			runChunk(path, chunk, "stream")
			off += sz
		}
		// full replay of every event (incl. the ones answered "terminal"): nothing may move
		if !bad {
			replay := append([]c40Step(nil), steps...)
			rng.Shuffle(len(replay), func(a, b int) { replay[a], replay[b] = replay[b], replay[a] })
			for j := range replay {
				if rng.IntN(2) == 0 { // a replay may carry different content: only the id counts
					replay[j].Ev.Payload = []byte(`{"kind":"text","delta":"REPLAY"}`)
					replay[j].Ev.EventType = metadb.EventTypeStreamDelta
				}
			}
			for off := 0; off < len(replay) && !bad; {
				path := paths[rng.IntN(len(paths))]
				sz := 1 + rng.IntN(4)
				if off+sz > len(replay) {
					sz = len(replay) - off
				}
				runChunk(path, replay[off:off+sz], "replay")
				off += sz
			}
		}
		if hasTerminal && (hasDup || hasAfterTerminal) {
			r.Nontrivial(shape.String())
		}
		if r.WantSample() && hasTerminal && hasDup {
			lanes := map[string]string{}
			for mi, m := range models {
				keys := make([]string, 0, len(m.Lanes))
				for k := range m.Lanes {
					keys = append(keys, k)
				}
				sort.Strings(keys)
				for _, k := range keys {
					lanes[msgs[mi]+"|"+k] = fmt.Sprintf("%s seq=%d payload=%q", m.Lanes[k].Status, m.Lanes[k].Seq, m.Lanes[k].Payload)
				}
			}
			r.Sample(map[string]any{"case": i, "shape": shape.String(), "final_lanes": lanes, "cursor": models[0].Cursor})
		}
	}
}

func c40Describe(evs []metadb.MessageEventAppend) []string {
	out := make([]string, len(evs))
	for i, ev := range evs {
		out[i] = fmt.Sprintf("%s id=%s key=%q type=%s payload=%q", ev.ClientMsgNo, ev.EventID, ev.EventKey, ev.EventType, ev.Payload)
	}
	return out
}
