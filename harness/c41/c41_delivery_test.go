//go:build verif

package delivery_test

// C41 unit "delivery": Online Delivery runtime Stop / Quiesce.
//
// The runtime's documented contract (FLOW.md §Canonical Plan Flow 8-9 and the
// runWorker comment) differs between the two entry points:
//   - Quiesce: "A caller deadline only stops waiting; the same detached drain
//     continues and a later Quiesce joins it."  -> all three clauses of C41 are
//     asserted.
//   - Stop: drains "within the caller's context"; "The generation context is
//     canceled only when the caller's graceful-stop budget expires, so a
//     successful Stop never discards accepted delivery work." An expired Stop
//     deadline therefore cancels accepted plans BY DESIGN; for Stop only the
//     first two clauses are asserted (no admission after the stop began; every
//     accepted plan has exactly one terminal observation when a Stop returns
//     nil) and cancelled plans after an expired Stop are counted, not alarmed.

import (
	"context"
	"errors"
	"fmt"
	"math/rand/v2"
	"runtime"
	"sync"
	"sync/atomic"
	"testing"
	"time"

	"github.com/WuKongIM/WuKongIM/internal/contracts/authority"
	cacontract "github.com/WuKongIM/WuKongIM/internal/contracts/channelappend"
	"github.com/WuKongIM/WuKongIM/internal/contracts/onlinedelivery"
	"github.com/WuKongIM/WuKongIM/internal/runtime/delivery"
	"github.com/WuKongIM/WuKongIM/pkg/verifkit"
)

type c41dGate struct {
	mu sync.Mutex
	ch chan struct{}
}

func (g *c41dGate) Close() {
	g.mu.Lock()
	if g.ch == nil {
		g.ch = make(chan struct{})
	}
	g.mu.Unlock()
}

func (g *c41dGate) Open() {
	g.mu.Lock()
	if g.ch != nil {
		close(g.ch)
		g.ch = nil
	}
	g.mu.Unlock()
}

func (g *c41dGate) waitC() <-chan struct{} {
	g.mu.Lock()
	defer g.mu.Unlock()
	return g.ch
}

// c41dWorld is the fake presence resolver + offline observer + runtime observer.
type c41dWorld struct {
	gate *c41dGate
	lat  int

	mu           sync.Mutex
	presenceDone map[uint64]int    // message id -> presence calls that returned normally
	presenceCtx  map[uint64]int    // message id -> presence calls that saw a cancelled context
	offline      map[uint64]int    // message id -> offline observer calls
	terminal     map[string]int    // terminal observations by result
	terminals    int
}

var errC41dPresence = errors.New("c41d: presence saw cancelled context")

func c41dMsgID(targets []onlinedelivery.RecipientTargetBatch) uint64 {
	var id uint64
	if len(targets) > 0 && len(targets[0].Recipients) > 0 {
		fmt.Sscanf(targets[0].Recipients[0].UID, "m%d-", &id)
	}
	return id
}

func (w *c41dWorld) EndpointsByTargets(ctx context.Context, targets []onlinedelivery.RecipientTargetBatch) []delivery.TargetPresenceResult {
	id := c41dMsgID(targets)
	out := make([]delivery.TargetPresenceResult, len(targets))
	cancelled := false
	if c := w.gate.waitC(); c != nil {
		select {
		case <-c:
		case <-ctx.Done():
			cancelled = true
		}
	}
	for i := 0; i < w.lat; i++ {
		runtime.Gosched()
	}
	if !cancelled && ctx.Err() != nil {
		cancelled = true
	}
	w.mu.Lock()
	if cancelled {
		w.presenceCtx[id]++
	} else {
		w.presenceDone[id]++
	}
	w.mu.Unlock()
	if cancelled {
		for i := range out {
			out[i].Err = fmt.Errorf("%w: %w", errC41dPresence, ctx.Err())
		}
	}
	return out // no routes: every recipient is offline
}

func (w *c41dWorld) ObserveOfflineRecipients(_ context.Context, e delivery.OfflineRecipientsEvent) {
	w.mu.Lock()
	w.offline[e.Event.MessageID]++
	w.mu.Unlock()
}

func (w *c41dWorld) ObservePlanAdmission(delivery.PlanAdmissionEvent) {}
func (w *c41dWorld) ObservePlanTerminal(e delivery.PlanTerminalEvent) {
	w.mu.Lock()
	w.terminal[string(e.Result)]++
	w.terminals++
	w.mu.Unlock()
}
func (w *c41dWorld) SetRuntimePressure(delivery.RuntimePressureEvent) {}
func (w *c41dWorld) ObserveOwnerPush(delivery.OwnerPushEvent)         {}

type c41dCfg struct {
	Producers int  `json:"producers"`
	Plans     int  `json:"plans_per_producer"`
	Workers   int  `json:"workers"`
	Queue     int  `json:"queue"`
	Channels  int  `json:"channels"`
	GateAt    int  `json:"gate_at"`
	StopAt    int  `json:"stop_at"`
	Scenario  int  `json:"scenario"` // 0 Quiesce ample, 1 Quiesce expired(+cancelled) then ample, 2 Quiesce short deadline then ample, 3 Stop ample, 4 Stop expired then ample, 5 Quiesce expired then Stop ample
	Hold      int  `json:"hold"`
	Lat       int  `json:"lat"`
}

type c41dPlan struct {
	ID   uint64
	Call int64
	Ret  int64
	Err  error
}

type c41dCall struct {
	Kind  string `json:"kind"`
	Call  int64  `json:"call"`
	Ret   int64  `json:"ret"`
	Err   string `json:"err"`
	IsNil bool   `json:"nil"`
}

type c41dRun struct {
	r     *verifkit.Run
	idx   int
	cfg   c41dCfg
	clock *verifkit.Clock
	world *c41dWorld
	rt    *delivery.Runtime

	mu        sync.Mutex
	plans     []*c41dPlan
	calls     []c41dCall
	submitted atomic.Int64
	blocked   atomic.Int64
	finished  atomic.Int64
	ids       atomic.Uint64
	fence     atomic.Int64
	hardStop  atomic.Bool // an expired Stop deadline was observed: cancellation is documented
}

func (run *c41dRun) plan(rng *rand.Rand) onlinedelivery.RecipientDeliveryPlan {
	id := run.ids.Add(1)
	ch := rng.IntN(run.cfg.Channels)
	p := onlinedelivery.RecipientDeliveryPlan{Mode: onlinedelivery.ModeDurable,
		Event: cacontract.CommittedEnvelope{MessageID: id, MessageSeq: id, ChannelID: fmt.Sprintf("c41d-r%d-ch%d", run.idx, ch), ChannelType: 2, FromUID: "sender", Payload: []byte("x")}}
	nt := 1 + rng.IntN(3)
	for t := 0; t < nt; t++ {
		b := onlinedelivery.RecipientTargetBatch{Target: authority.Target{HashSlot: uint16(t), SlotID: 1, LeaderNodeID: 1, LeaderTerm: 1, ConfigEpoch: 1}}
		nr := 1 + rng.IntN(3)
		for k := 0; k < nr; k++ {
			b.Recipients = append(b.Recipients, cacontract.Recipient{UID: fmt.Sprintf("m%d-t%d-r%d", id, t, k)})
		}
		p.Targets = append(p.Targets, b)
	}
	return p
}

func (run *c41dRun) enqueue(rng *rand.Rand) *c41dPlan {
	p := run.plan(rng)
	rec := &c41dPlan{ID: p.Event.MessageID}
	rec.Call = run.clock.Tick()
	run.blocked.Add(1) // Enqueue may block on queue capacity
	rec.Err = run.rt.EnqueueRecipientDeliveryPlan(context.Background(), p)
	run.blocked.Add(-1)
	rec.Ret = run.clock.Tick()
	run.mu.Lock()
	run.plans = append(run.plans, rec)
	run.mu.Unlock()
	run.submitted.Add(1)
	return rec
}

func (run *c41dRun) waitProgress(n int64) {
	stable := 0
	for i := 0; ; i++ {
		if run.submitted.Load() >= n || run.finished.Load() >= int64(run.cfg.Producers) {
			return
		}
		// every live producer is inside Enqueue (blocked on a full queue)
		if run.blocked.Load()+run.finished.Load() >= int64(run.cfg.Producers) {
			stable++
			if stable > 200 {
				return
			}
		} else {
			stable = 0
		}
		if i%8 == 7 {
			time.Sleep(30 * time.Microsecond)
		} else {
			runtime.Gosched()
		}
	}
}

func (run *c41dRun) lifecycle(kind string, quiesce bool, ctx context.Context, cancel context.CancelFunc) bool {
	r := run.r
	rec := c41dCall{Kind: kind, Call: run.clock.Tick()}
	var err error
	if quiesce {
		err = run.rt.Quiesce(ctx)
	} else {
		err = run.rt.Stop(ctx)
	}
	// --- at-return evaluation.
	var missing []uint64
	accepted, terminals := 0, 0
	if err == nil {
		run.mu.Lock()
		snapshot := append([]*c41dPlan(nil), run.plans...)
		run.mu.Unlock()
		run.world.mu.Lock()
		terminals = run.world.terminals
		for _, p := range snapshot {
			if p.Err != nil {
				continue
			}
			accepted++
			if run.world.presenceDone[p.ID]+run.world.presenceCtx[p.ID] == 0 && !run.hardStop.Load() {
				missing = append(missing, p.ID)
			}
		}
		run.world.mu.Unlock()
	}
	rec.Ret = run.clock.Tick()
	run.fence.CompareAndSwap(0, rec.Ret)
	rec.IsNil = err == nil
	if err != nil {
		rec.Err = err.Error()
		if !quiesce {
			run.hardStop.Store(true)
		}
	}
	run.mu.Lock()
	run.calls = append(run.calls, rec)
	history := append([]c41dCall(nil), run.calls...)
	run.mu.Unlock()
	r.Count("lifecycle.calls."+kind, 1)
	if err == nil {
		r.Count("lifecycle.returned_nil."+kind, 1)
		if terminals < accepted {
			r.Violation("delivery-stop-returned-nil-before-accepted-plans-terminal", map[string]any{"run": run.idx, "cfg": run.cfg, "calls": history, "accepted_registered": accepted, "terminal_observations": terminals})
		}
		for i, id := range missing {
			if i >= 3 {
				break
			}
			r.Violation("delivery-stop-returned-nil-before-accepted-plan-processed", map[string]any{"run": run.idx, "cfg": run.cfg, "calls": history, "message_id": id, "missing": len(missing)})
		}
	} else {
		r.Count("lifecycle.returned_ctx_error."+kind, 1)
		switch {
		case kind == "quiesce_ample" || kind == "stop_ample":
			r.Violation("delivery-stop-with-ample-deadline-returned-error", map[string]any{"run": run.idx, "cfg": run.cfg, "calls": history})
		case ctx.Err() == nil || !errors.Is(err, ctx.Err()):
			r.Violation("delivery-stop-returned-error-other-than-its-context-error", map[string]any{"run": run.idx, "cfg": run.cfg, "calls": history})
		}
	}
	if cancel != nil {
		cancel()
	}
	// probe: admission is closed once a Stop/Quiesce call has returned.
	run.enqueue(run.r.Rand(4141, uint64(run.idx), uint64(len(history))))
	if quiesce {
		// The only other lifecycle entry point is Start. While the generation is
		// quiescing (from the Quiesce call until an ordinary Stop finalizes it)
		// Start must refuse and must not reopen plan admission.
		serr := run.rt.Start(context.Background())
		r.Count("lifecycle.start_while_quiescing", 1)
		if !errors.Is(serr, delivery.ErrRuntimeClosed) {
			r.Violation("delivery-start-succeeded-while-quiescing", map[string]any{"run": run.idx, "cfg": run.cfg, "calls": history, "start_err": fmt.Sprint(serr)})
		}
		run.enqueue(run.r.Rand(4142, uint64(run.idx), uint64(len(history))))
	}
	return err == nil
}

func c41dExpired() (context.Context, context.CancelFunc) {
	return context.WithDeadline(context.Background(), time.Unix(1, 0))
}

func (run *c41dRun) controller() {
	cfg := run.cfg
	if cfg.GateAt >= 0 {
		run.waitProgress(int64(cfg.GateAt))
		run.world.gate.Close()
	}
	run.waitProgress(int64(cfg.StopAt))
	hold := func() { run.waitProgress(run.submitted.Load() + int64(cfg.Hold)) }
	ample := func() (context.Context, context.CancelFunc) { return context.WithTimeout(context.Background(), 10*time.Minute) }
	async := func(kind string, quiesce bool) {
		done := make(chan bool, 1)
		go func() {
			ctx, cancel := ample()
			done <- run.lifecycle(kind, quiesce, ctx, cancel)
		}()
		hold()
		run.world.gate.Open()
		<-done
	}
	switch cfg.Scenario {
	case 0:
		async("quiesce_ample", true)
	case 1:
		ctx, cancel := c41dExpired()
		run.lifecycle("quiesce_expired", true, ctx, cancel)
		hold()
		ctx, cancel = context.WithCancel(context.Background())
		cancel()
		run.lifecycle("quiesce_cancelled", true, ctx, nil)
		hold()
		run.world.gate.Open()
		ctx, cancel = ample()
		run.lifecycle("quiesce_ample", true, ctx, cancel)
	case 2:
		ctx, cancel := context.WithTimeout(context.Background(), time.Duration(200+cfg.Hold*50)*time.Microsecond)
		run.lifecycle("quiesce_short_deadline", true, ctx, cancel)
		hold()
		run.world.gate.Open()
		ctx, cancel = ample()
		run.lifecycle("quiesce_ample", true, ctx, cancel)
	case 3:
		async("stop_ample", false)
	case 4:
		ctx, cancel := c41dExpired()
		run.lifecycle("stop_expired", false, ctx, cancel)
		hold()
		run.world.gate.Open()
		ctx, cancel = ample()
		run.lifecycle("stop_ample", false, ctx, cancel)
	case 5:
		ctx, cancel := c41dExpired()
		run.lifecycle("quiesce_expired", true, ctx, cancel)
		hold()
		run.world.gate.Open()
	}
	run.world.gate.Open()
	// Every scenario ends with an ordinary Stop that must return nil.
	ctx, cancel := ample()
	run.lifecycle("stop_ample", false, ctx, cancel)
}

func TestVerifC41Delivery(t *testing.T) {
	r := verifkit.Start(t, "C41", "delivery")
	defer r.Finish()
	r.SetRule("One case = one fresh delivery.Runtime with a gated presence resolver that reports every recipient offline; 2-8 producers enqueue durable plans (PRNG targets/recipients, unique message ids, bounded queue so Enqueue can block); at a PRNG instant of the enqueue counter a controller runs one scenario (Quiesce ample / expired+cancelled+ample / short deadline+ample, Stop ample / expired+ample, Quiesce expired then Stop) and always finishes with Stop(ample). Non-trivial = a plan was accepted before the fence, an Enqueue was rejected after it, and a lifecycle call returned while accepted plans were unprocessed (returned a context error, or was invoked with gated work). Distinct = (scenario, producers, workers, queue bucket, gate mode, log2 accepted / rejected).")
	r.Assume("Stop with an expired deadline cancels accepted plans by documented design (runtime.go runWorker comment, FLOW.md step 8); the third clause of C41 is asserted for Quiesce only.")

	nRuns := r.N(350, 6500)
	for i := 0; i < nRuns; i++ {
		if r.Skip(i) {
			continue
		}
		rng := r.Rand(4100, uint64(i))
		cfg := c41dCfg{Producers: 2 + rng.IntN(7), Workers: 1 + rng.IntN(4), Channels: 1 + rng.IntN(5), Scenario: rng.IntN(6), Hold: rng.IntN(30), Lat: rng.IntN(4)}
		cfg.Plans = 10 + rng.IntN(60)
		cfg.Queue = []int{0, 0, 4, 16, 64}[rng.IntN(5)]
		n := cfg.Producers * cfg.Plans
		cfg.StopAt = rng.IntN(n + 1)
		switch rng.IntN(8) {
		case 0:
			cfg.GateAt = -1
		case 1, 2:
			cfg.GateAt = 0
		default:
			cfg.GateAt = rng.IntN(cfg.StopAt + 1)
		}
		r.BeginCase(i, fmt.Sprintf("%+v", cfg))
		run := &c41dRun{r: r, idx: i, cfg: cfg, clock: &verifkit.Clock{}}
		run.world = &c41dWorld{gate: &c41dGate{}, lat: cfg.Lat, presenceDone: map[uint64]int{}, presenceCtx: map[uint64]int{}, offline: map[uint64]int{}, terminal: map[string]int{}}
		ok := verifkit.Watchdog(240*time.Second, func() { run.execute() })
		if !ok {
			r.Inconclusive(fmt.Sprintf("case %d: watchdog (240s) expired; cfg=%+v", i, cfg))
			r.Count("runs.watchdog", 1)
			run.world.gate.Open()
			if r.NumViolations() > 0 {
				break
			}
		}
	}
}

func (run *c41dRun) execute() {
	r, cfg := run.r, run.cfg
	run.rt = delivery.NewRuntime(delivery.RuntimeOptions{LocalNodeID: 1, Presence: run.world, OfflineRecipientsObserver: run.world, Observer: run.world,
		QueueSize: cfg.Queue, Workers: cfg.Workers, PlanTimeout: time.Hour})
	if err := run.rt.Start(context.Background()); err != nil {
		r.Inconclusive(fmt.Sprintf("case %d: Start: %v", run.idx, err))
		return
	}
	var wg sync.WaitGroup
	for p := 0; p < cfg.Producers; p++ {
		prng := r.Rand(4100, uint64(run.idx), 100+uint64(p))
		wg.Add(1)
		go func() {
			defer wg.Done()
			defer run.finished.Add(1)
			for n := 0; n < cfg.Plans; n++ {
				run.enqueue(prng)
				if prng.IntN(4) == 0 {
					runtime.Gosched()
				}
			}
		}()
	}
	run.controller()
	wg.Wait()
	run.judge()
}

func (run *c41dRun) judge() {
	r, cfg := run.r, run.cfg
	run.mu.Lock()
	plans := append([]*c41dPlan(nil), run.plans...)
	calls := append([]c41dCall(nil), run.calls...)
	run.mu.Unlock()
	w := run.world
	w.mu.Lock()
	defer w.mu.Unlock()
	fence := run.fence.Load()
	hard := run.hardStop.Load()
	accepted, acceptedBefore, rejectedAfter := 0, 0, 0
	firstCall := int64(0)
	if len(calls) > 0 {
		firstCall = calls[0].Call
	}
	wit := func(p *c41dPlan, extra map[string]any) map[string]any {
		m := map[string]any{"run": run.idx, "cfg": cfg, "calls": calls, "message_id": p.ID, "enqueue_call": p.Call, "enqueue_ret": p.Ret, "enqueue_err": fmt.Sprint(p.Err),
			"presence_done": w.presenceDone[p.ID], "presence_cancelled": w.presenceCtx[p.ID], "offline_observed": w.offline[p.ID]}
		for k, v := range extra {
			m[k] = v
		}
		return m
	}
	for _, p := range plans {
		r.Eval(1)
		after := fence != 0 && p.Call > fence
		if p.Err != nil {
			r.Count("enqueue.rejected", 1)
			if !errors.Is(p.Err, delivery.ErrRuntimeClosed) {
				r.Violation("delivery-enqueue-rejected-with-unexpected-error", wit(p, nil))
			}
			if after {
				rejectedAfter++
			}
			if w.presenceDone[p.ID]+w.presenceCtx[p.ID]+w.offline[p.ID] > 0 {
				r.Violation("delivery-rejected-plan-was-processed", wit(p, nil))
			}
			continue
		}
		accepted++
		if after {
			r.Violation("delivery-plan-admitted-after-stop-returned", wit(p, nil))
		}
		if firstCall != 0 && p.Ret < firstCall {
			acceptedBefore++
		}
		processed := w.presenceDone[p.ID] + w.presenceCtx[p.ID]
		switch {
		case w.presenceDone[p.ID] == 1 && w.offline[p.ID] == 1 && w.presenceCtx[p.ID] == 0:
			r.Count("plan.completed_normally", 1)
		case hard && processed <= 1:
			r.Count("plan.cancelled_after_expired_stop_deadline", 1) // documented for Stop
		case processed > 1 || w.offline[p.ID] > 1:
			r.Violation("delivery-accepted-plan-processed-more-than-once", wit(p, nil))
		case w.presenceCtx[p.ID] > 0:
			r.Violation("delivery-accepted-plan-cancelled-without-expired-stop", wit(p, nil))
		default:
			r.Violation("delivery-accepted-plan-dropped", wit(p, nil))
		}
	}
	if w.terminals != accepted {
		r.Violation("delivery-terminal-observations-differ-from-accepted-plans", map[string]any{"run": run.idx, "cfg": cfg, "calls": calls, "accepted": accepted, "terminal": w.terminals, "by_result": w.terminal})
	}
	for k, v := range w.terminal {
		r.Count("terminal."+k, v)
		if k != "ok" && !hard {
			r.Violation("delivery-plan-terminal-result-not-ok-without-expired-stop", map[string]any{"run": run.idx, "cfg": cfg, "calls": calls, "by_result": w.terminal})
		}
	}
	r.Count("runs.finished", 1)
	r.Count("accepted.before_first_lifecycle_call", acceptedBefore)
	r.Count("rejected.after_fence", rejectedAfter)
	withWork := false
	for _, c := range calls {
		if !c.IsNil {
			withWork = true
		}
	}
	if cfg.GateAt >= 0 && acceptedBefore > 0 {
		withWork = true
	}
	if withWork && acceptedBefore > 0 && rejectedAfter > 0 {
		lg := func(n int) int {
			b := 0
			for n > 0 {
				b++
				n >>= 1
			}
			return b
		}
		gate := "gated"
		if cfg.GateAt < 0 {
			gate = "open"
		}
		r.Nontrivial(fmt.Sprintf("s%d/p%d/w%d/q%d/%s/a%d/r%d", cfg.Scenario, cfg.Producers, cfg.Workers, cfg.Queue, gate, lg(acceptedBefore), lg(rejectedAfter)))
	}
	if r.WantSample() {
		r.Sample(map[string]any{"run": run.idx, "cfg": cfg, "calls": calls, "plans": len(plans), "accepted": accepted, "terminal": w.terminal})
	}
}
