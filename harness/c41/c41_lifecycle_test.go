//go:build verif

package channelappend_test

// C41 unit "append", lifecycle interleavings: every exported lifecycle method
// of channelappend.Group other than Stop — Start, PauseForRestore,
// ResumeAfterRestore, WaitIdle, ResetAfterRestore (plus ApplySubscriberMutation
// as a bystander) — is issued at PRNG instants before, concurrently with, after
// an expired-context Stop and after a nil Stop, by an independent goroutine and
// by the controller right after every Stop return, while submissions continue.
//
// What the code documents and what is therefore asserted:
//   - Stop: "closes admission ... A stopped group is not restarted"  -> once any
//     Stop call has returned, no later-invoked SubmitLocal is admitted whatever
//     lifecycle calls follow (decided online in submit()); Start invoked after
//     that returns an error.
//   - PauseForRestore: "closes local admission before the maintenance drain ...
//     every accepted request is either owned by the subsequent drain or
//     rejected" -> a SubmitLocal invoked after PauseForRestore returned and
//     finished before any ResumeAfterRestore was invoked is rejected.
//   - WaitIdle: "waits for every admitted append and post-commit effect to
//     finish without closing the reusable runtime" -> when it returns nil every
//     future handed out before it was invoked is complete; if admission was
//     paused for the whole call every stored record had its post-commit effect.
//   - ResetAfterRestore / ResumeAfterRestore / ApplySubscriberMutation promise
//     nothing observable here; they only must not lose admitted work (covered
//     by the end-of-case and at-Stop-return obligations).

import (
	"context"
	"errors"
	"fmt"
	"math/rand/v2"
	"sort"

	ca "github.com/WuKongIM/WuKongIM/internal/runtime/channelappend"
)

type c41LifeOp struct {
	At int    `json:"at"` // submission count at which the call is issued
	Op string `json:"op"`
}

type c41LifeRec struct {
	Op    string `json:"op"`
	By    string `json:"by"`
	Call  int64  `json:"call"`
	Ret   int64  `json:"ret"`
	Err   string `json:"err,omitempty"`
	Class string `json:"class"` // position relative to Stop
}

var c41LifeKinds = []string{"pause", "pause", "resume", "resume", "start", "waitidle", "waitidle_expired", "reset", "mutation"}

func c41GenLifeOps(rng *rand.Rand, total int) []c41LifeOp {
	n := rng.IntN(9)
	if rng.IntN(4) == 0 {
		n = 0
	}
	var ops []c41LifeOp
	for i := 0; i < n; i++ {
		at := rng.IntN(total + total/8 + 1)
		op := c41LifeKinds[rng.IntN(len(c41LifeKinds))]
		ops = append(ops, c41LifeOp{At: at, Op: op})
		if op == "pause" && rng.IntN(100) < 60 {
			// keep most maintenance windows short: pause, (drain), resume
			if rng.IntN(2) == 0 {
				ops = append(ops, c41LifeOp{At: at + 1 + rng.IntN(6), Op: "waitidle_expired"})
			}
			ops = append(ops, c41LifeOp{At: at + 2 + rng.IntN(25), Op: "resume"})
		}
	}
	sort.SliceStable(ops, func(i, j int) bool { return ops[i].At < ops[j].At })
	return ops
}

func (run *c41Run) lifeHistory() []c41LifeRec {
	run.mu.Lock()
	defer run.mu.Unlock()
	return append([]c41LifeRec(nil), run.life...)
}

func (run *c41Run) stopClass() string {
	switch {
	case run.nilStop.Load() != 0:
		return "after_nil_stop"
	case run.stopInflight.Load() > 0:
		return "during_stop_call"
	case run.fence.Load() != 0:
		return "after_expired_stop"
	}
	return "before_stop"
}

// lifeOp performs one lifecycle call, records it and evaluates its at-return
// obligations.
func (run *c41Run) lifeOp(op, by string) {
	r := run.r
	class := run.stopClass()
	rec := c41LifeRec{Op: op, By: by}
	var before []*c29Batch
	if op == "waitidle" || op == "waitidle_expired" {
		run.mu.Lock()
		before = append([]*c29Batch(nil), run.batches...)
		run.mu.Unlock()
	}
	rec.Call = run.clock.Tick()
	var err error
	switch op {
	case "start":
		err = run.group.Start(context.Background())
	case "pause":
		run.group.PauseForRestore()
	case "resume":
		run.group.ResumeAfterRestore()
	case "reset":
		err = run.group.ResetAfterRestore()
	case "waitidle":
		err = run.group.WaitIdle(run.lifeCtx)
	case "waitidle_expired":
		err = run.group.WaitIdle(c29CancelledCtx)
	case "mutation":
		err = run.group.ApplySubscriberMutation(context.Background(), ca.SubscriberMutationUpdate{ChannelID: run.chans[0], SubscriberMutationVersion: uint64(rec.Call), AddedUIDs: []string{"u9"}})
	}
	// --- at-return evaluation.
	var pending []*c29Batch
	var missingPC []c29Record
	if (op == "waitidle" || op == "waitidle_expired") && err == nil {
		for _, b := range before {
			if b.fut != nil && b.Ret < rec.Call {
				if _, done := c29FutureDone(b.fut); !done {
					pending = append(pending, b)
				}
			}
		}
		logs, _, _, _, _ := run.model.Snapshot()
		_, delivered := run.pc.Snapshot()
		for _, log := range logs {
			for _, m := range log {
				if run.cfg.PostCommit && delivered[m.ID] == 0 {
					missingPC = append(missingPC, m)
				}
			}
		}
	}
	rec.Ret = run.clock.Tick()
	if class2 := run.stopClass(); class2 != class && class == "before_stop" {
		class = "during_stop_call"
	}
	rec.Class = class
	if err != nil {
		rec.Err = err.Error()
	}
	run.mu.Lock()
	run.life = append(run.life, rec)
	history := append([]c41LifeRec(nil), run.life...)
	run.mu.Unlock()
	res := "ok"
	if err != nil {
		res = "err"
	}
	r.Count("lifecycle."+op+"."+class+"."+res, 1)

	fence := run.fence.Load()
	switch op {
	case "start":
		if fence != 0 && rec.Call > fence && err == nil {
			r.Violation("start-succeeded-after-stop-returned", map[string]any{"run": run.idx, "cfg": run.cfg, "stops": run.stopHistory(), "lifecycle": history})
		}
		if fence == 0 && run.stopInflight.Load() == 0 && err != nil && class == "before_stop" {
			r.Violation("start-failed-on-running-group", map[string]any{"run": run.idx, "cfg": run.cfg, "lifecycle": history, "err": rec.Err})
		}
	case "waitidle", "waitidle_expired":
		for i, b := range pending {
			if i >= 2 {
				break
			}
			r.Violation("waitidle-returned-nil-before-earlier-admitted-send-terminal", map[string]any{"run": run.idx, "cfg": run.cfg, "stops": run.stopHistory(), "lifecycle": history,
				"producer": b.Prod, "batch": b.N, "submit_call": b.Call, "submit_ret": b.Ret, "items": b.Items, "pending_batches": len(pending)})
		}
		if err == nil && len(missingPC) > 0 && run.pausedThroughout(history, rec) {
			r.Violation("waitidle-returned-nil-while-paused-before-post-commit-effect-ran", map[string]any{"run": run.idx, "cfg": run.cfg, "lifecycle": history, "record": missingPC[0], "missing": len(missingPC)})
		}
		if err != nil && !errors.Is(err, context.Canceled) && !errors.Is(err, context.DeadlineExceeded) {
			r.Violation("waitidle-returned-error-other-than-its-context-error", map[string]any{"run": run.idx, "cfg": run.cfg, "lifecycle": history, "err": rec.Err})
		}
	}
	// Whatever was just called, admission stays closed once a Stop returned.
	if fence != 0 {
		probe := &c29Batch{Prod: -1, N: 1000 + len(history), Phase: 3}
		u := run.uniq.Add(1)
		probe.Items = []c29Item{{Kind: c29Normal, Ch: 0, From: "u0", No: fmt.Sprintf("lprobe%d", u), Payload: c29KeyedPayload(0, "u0", fmt.Sprintf("lprobe%d", u), 0)}}
		run.submit(probe)
		r.Count("lifecycle.probe_after_fence."+op, 1)
	}
}

// pausedThroughout reports whether admission was certainly paused for the
// whole call w: a pause returned before w was invoked and no resume was
// invoked between that pause's invocation and w's return.
func (run *c41Run) pausedThroughout(history []c41LifeRec, w c41LifeRec) bool {
	for _, p := range history {
		if p.Op != "pause" || p.Ret >= w.Call {
			continue
		}
		ok := true
		for _, x := range history {
			if x.Op == "resume" && x.Ret > p.Call && x.Call < w.Ret {
				ok = false
				break
			}
		}
		if ok {
			return true
		}
	}
	return false
}

// afterStopLifecycle issues up to cfg.AfterOps PRNG lifecycle calls right after
// a Stop call returned (controller goroutine only; never a blocking WaitIdle,
// the controller still has to release the gates).
func (run *c41Run) afterStopLifecycle(kind string) {
	if kind == "final_expired" || run.cfg.AfterOps == 0 {
		return
	}
	ops := []string{"resume", "resume", "start", "pause", "reset", "waitidle_expired", "mutation"}
	n := run.lrng.IntN(run.cfg.AfterOps + 1)
	paused := false
	for i := 0; i < n; i++ {
		op := ops[run.lrng.IntN(len(ops))]
		run.lifeOp(op, "controller")
		if op == "pause" {
			paused = true
		}
	}
	if paused || run.cfg.PauseBefore {
		run.lifeOp("resume", "controller") // the maintenance resume that arrives after the stop began
	}
}

// lifecycler is the independent lifecycle goroutine.
func (run *c41Run) lifecycler(rng *rand.Rand) {
	defer close(run.lifeDone)
	for _, op := range run.cfg.LifeOps {
		run.waitProgress(int64(op.At))
		run.lifeOp(op.Op, "lifecycler")
		if rng.IntN(3) == 0 {
			run.waitProgress(run.submitted.Load() + 1)
		}
	}
}

// judgeLifecycle checks the pause window on the complete history and reports
// the interleaving classes that occurred.
func (run *c41Run) judgeLifecycle(batches []*c29Batch, stops []c41StopRec) {
	r := run.r
	life := run.lifeHistory()
	type window struct{ from, to int64 }
	var windows []window
	for _, p := range life {
		if p.Op != "pause" {
			continue
		}
		end := int64(1) << 62
		for _, x := range life {
			if x.Op == "resume" && x.Ret > p.Call && x.Call < end {
				end = x.Call
			}
		}
		if end > p.Ret {
			windows = append(windows, window{p.Ret, end})
		}
	}
	inWindow, flagged := 0, 0
	for _, b := range batches {
		for _, w := range windows {
			if b.Call > w.from && b.Ret < w.to {
				inWindow++
				if b.fut != nil {
					flagged++
					if flagged <= 2 {
						r.Violation("send-admitted-while-paused", map[string]any{"run": run.idx, "cfg": run.cfg, "stops": stops, "lifecycle": life,
							"producer": b.Prod, "batch": b.N, "submit_call": b.Call, "submit_ret": b.Ret, "pause_returned": w.from, "next_resume_invoked": w.to})
					}
				} else if !errors.Is(b.Err, ca.ErrRouteNotReady) {
					r.Violation("submission-while-paused-rejected-with-unexpected-error", map[string]any{"run": run.idx, "cfg": run.cfg, "lifecycle": life, "err": fmt.Sprint(b.Err)})
				}
				break
			}
		}
	}
	r.Count("pause.windows", len(windows))
	r.Count("pause.submissions_inside_window_rejected", inWindow-flagged)
	// interleaving classes: which lifecycle calls happened after which Stop outcome.
	seen := map[string]bool{}
	for _, l := range life {
		seen[l.Op+"@"+l.Class] = true
	}
	for k := range seen {
		r.Count("interleaving.cases_with."+k, 1)
	}
	// the sequence of the seeded-bug family: pause ... Stop returned ... resume ... submission
	for _, p := range life {
		if p.Op != "pause" {
			continue
		}
		for _, s := range stops {
			if s.Ret <= p.Ret {
				continue
			}
			for _, x := range life {
				if x.Op == "resume" && x.Call > s.Ret {
					cls := "pause_stopexpired_resume_submit"
					if s.IsNil {
						cls = "pause_stopnil_resume_submit"
					}
					if !seen["seq:"+cls] {
						seen["seq:"+cls] = true
						r.Count("interleaving.cases_with_sequence."+cls, 1)
					}
				}
			}
		}
	}
}
