//go:build verif

package channelappend_test

// C41 — Stopping the send pipeline never drops accepted sends (unit "append":
// channelappend.Group.Stop).
//
// Each case builds a fresh Group over the c29Model store with gated appends
// and a gated PersistAfter sink. Producers submit pipelined batches; at a PRNG
// instant of the global submission counter a controller runs one Stop
// scenario (ample deadline / already-expired context / deadline expiring while
// waiting, followed by later Stops) while submissions keep arriving. The
// oracle is evaluated at the moment a Stop returns and again on the complete
// history after the harness released its gates.

import (
	"context"
	"errors"
	"fmt"
	"math/rand/v2"
	"runtime"
	"sync"
	"sync/atomic"
	"testing"
	"time"

	ca "github.com/WuKongIM/WuKongIM/internal/runtime/channelappend"
	"github.com/WuKongIM/WuKongIM/pkg/verifkit"
)

type c41Cfg struct {
	Producers int       `json:"producers"`
	Channels  int       `json:"channels"`
	Shards    int       `json:"shards"`
	Advance   int       `json:"advance"`
	Effect    int       `json:"effect"`
	AdmitCap  int       `json:"admit_cap"`
	Backlog   int       `json:"backlog"`
	Coalesce  int       `json:"coalesce"`
	Depth     int       `json:"depth"`
	Batches   int       `json:"batches"`
	MaxBatch  int       `json:"max_batch"`
	GateAt    int       `json:"gate_at"`   // submission count at which the gates close (-1 never)
	GatePC    bool      `json:"gate_pc"`   // also gate the post-commit sink
	StopAt    int       `json:"stop_at"`   // submission count at which the Stop scenario starts
	Scenario  int       `json:"scenario"`  // 0 ample, 1 expired then ample, 2 short deadline then ample, 3 expired, expired, ample
	Hold      int       `json:"hold"`      // further submission attempts before the gates open
	Faults    c29Faults `json:"faults"`
	// Further Options knobs that shape the pipeline.
	Inflight      int  `json:"inflight"`       // AppendInflightBatchesPerChannel: 0 (default = 1), 2, 3, 8
	Reorder       int  `json:"reorder"`        // permille of appender calls held until a later same-channel call returned (only with Inflight >= 2)
	HandoffCap    int  `json:"handoff_cap"`    // PostCommitHandoffCapacity (0 = derived)
	CoalesceMax   int  `json:"coalesce_max"`   // InboxCoalesceMaxItems (0 = default)
	IdleRetention int  `json:"idle_retention"` // WriterIdleRetention in microseconds (0 = default 10 min)
	PostCommit    bool `json:"post_commit"`    // PersistAfterEnqueuer configured (false selects the append-only writer loop)
	SenderFence   bool `json:"sender_fence"`   // SenderFenceValidator configured (always accepts)
	Observer      bool `json:"observer"`       // AppendObserver + pressure/effect/pool observers configured
	FakeClock     bool `json:"fake_clock"`     // Options.Clock supplied by the harness
	// PauseBefore issues PauseForRestore right before the Stop scenario (the
	// resume then happens after a Stop call returned, or never).
	PauseBefore bool `json:"pause_before"`
	// AfterOps is the maximum number of PRNG lifecycle calls issued by the
	// controller after every Stop call that returned.
	AfterOps int `json:"after_ops"`
	// LifeOps is the plan of the independent lifecycle goroutine.
	LifeOps []c41LifeOp `json:"life_ops"`
}

func c41GenCfg(rng *rand.Rand) c41Cfg {
	c := c41Cfg{}
	c.Producers = 2 + rng.IntN(11)
	c.Channels = 1 + rng.IntN(5)
	c.Shards = 1 + rng.IntN(4)
	c.Advance = 1 + rng.IntN(4)
	c.Effect = 1 + rng.IntN(4)
	if rng.IntN(4) == 0 {
		c.AdmitCap = 2 + rng.IntN(30)
	}
	if rng.IntN(5) == 0 {
		c.Backlog = 8 + rng.IntN(60)
	}
	c.Coalesce = []int{0, 0, -1, 1}[rng.IntN(4)]
	c.Depth = 1 + rng.IntN(8)
	c.MaxBatch = 1 + rng.IntN(6)
	total := 150 + rng.IntN(500)
	c.Batches = total / c.Producers
	if c.Batches < 4 {
		c.Batches = 4
	}
	n := c.Producers * c.Batches
	c.StopAt = rng.IntN(n + 1)
	if rng.IntN(5) == 0 {
		c.StopAt = rng.IntN(1 + n/8) // early stop
	}
	switch rng.IntN(10) {
	case 0:
		c.GateAt = -1
	case 1, 2:
		c.GateAt = 0
	default:
		c.GateAt = rng.IntN(c.StopAt + 1)
		if rng.IntN(3) == 0 && c.StopAt > 6 {
			c.GateAt = c.StopAt - rng.IntN(6)
		}
	}
	c.GatePC = rng.IntN(3) == 0
	c.Scenario = rng.IntN(4)
	c.Hold = rng.IntN(40)
	c.Faults = c29Faults{FailBefore: rng.IntN(80), Latency: rng.IntN(3)}
	c.Inflight = []int{0, 0, 2, 2, 3, 8}[rng.IntN(6)]
	if c.Inflight >= 2 {
		if c.Effect < 2 {
			c.Effect = 2 + rng.IntN(3)
		}
		if rng.IntN(4) != 0 {
			c.Reorder = 100 + rng.IntN(500)
		}
		if c.Depth < 3 {
			c.Depth = 3 + rng.IntN(6) // several batches per channel must be outstanding
		}
	}
	if rng.IntN(6) == 0 {
		c.HandoffCap = 4 + rng.IntN(60)
	}
	c.CoalesceMax = []int{0, 0, 2, 64}[rng.IntN(4)]
	if rng.IntN(5) == 0 {
		c.IdleRetention = 1 + rng.IntN(2000)
	}
	c.PostCommit = rng.IntN(4) != 0
	if !c.PostCommit {
		c.GatePC = false
	}
	c.SenderFence = rng.IntN(3) == 0
	c.Observer = rng.IntN(2) == 0
	c.FakeClock = rng.IntN(4) == 0
	c.PauseBefore = rng.IntN(100) < 35
	c.AfterOps = rng.IntN(4)
	c.LifeOps = c41GenLifeOps(rng, n)
	return c
}

type c41StopRec struct {
	Kind   string `json:"kind"`
	Call   int64  `json:"call"`
	Ret    int64  `json:"ret"`
	Err    string `json:"err"`
	IsNil  bool   `json:"nil"`
	Polled int    `json:"futures_polled"`
	// PendingAtCall is the number of admitted batches whose future was not
	// complete just before Stop was called.
	PendingAtCall int `json:"pending_at_call"`
	// HeldAtCall / PairsAtCall: channels with an appender call held back by the
	// reorder mode, and those of them with a later same-channel call in flight
	// (an out-of-order completion pair in the making), just before Stop.
	HeldAtCall  int `json:"held_at_call"`
	PairsAtCall int `json:"pairs_at_call"`
}

type c41Run struct {
	r     *verifkit.Run
	idx   int
	cfg   c41Cfg
	clock *verifkit.Clock
	model *c29Model
	pc    *c29PostCommit
	group *ca.Group
	chans []ca.ChannelID

	mu        sync.Mutex
	batches   []*c29Batch
	stops     []c41StopRec
	submitted atomic.Int64
	waiting   atomic.Int64
	finished  atomic.Int64
	uniq      atomic.Int64
	fence     atomic.Int64 // stamp after the first Stop call returned (0 = none yet)

	life         []c41LifeRec // every lifecycle call other than Stop (guarded by mu)
	stopInflight atomic.Int32 // Stop calls currently executing
	nilStop      atomic.Int64 // stamp after the first Stop call that returned nil
	lateAdmits   atomic.Int32 // submissions admitted after the fence (witnesses are capped)
	lrng         *rand.Rand   // controller-only PRNG for the after-Stop lifecycle calls
	endCtx       context.Context
	endCancel    context.CancelFunc
	lifeCtx      context.Context // bounds the lifecycle goroutine's blocking WaitIdle calls
	lifeCancel   context.CancelFunc
	lifeDone     chan struct{}
	stopFailed   atomic.Bool // the ample Stop never returned nil (decided by stopAmple)
}

func (run *c41Run) toSend(it c29Item) ca.SendBatchItem {
	id := run.chans[it.Ch]
	return ca.SendBatchItem{Context: context.Background(), Command: ca.SendCommand{FromUID: it.From, ClientMsgNo: it.No, ChannelID: id.ID, ChannelType: id.Type, Payload: []byte(it.Payload)}}
}

func (run *c41Run) submit(b *c29Batch) {
	items := make([]ca.SendBatchItem, len(b.Items))
	for i, it := range b.Items {
		items[i] = run.toSend(it)
	}
	target := ca.AuthorityTarget{ChannelID: run.chans[b.Items[0].Ch], LeaderNodeID: 1, Epoch: 3, LeaderEpoch: 2}
	b.Call = run.clock.Tick()
	fut, err := run.group.SubmitLocal(context.Background(), target, items)
	b.Ret = run.clock.Tick()
	b.fut, b.Err = fut, err
	run.mu.Lock()
	run.batches = append(run.batches, b)
	run.mu.Unlock()
	run.submitted.Add(1)
	// Decided online: a late admission may never complete, so the verdict must
	// not depend on the run reaching its final judgement.
	if f := run.fence.Load(); f != 0 && b.Call > f && fut != nil {
		if run.lateAdmits.Add(1) <= 2 {
			run.r.Violation("send-admitted-after-stop-returned", map[string]any{"run": run.idx, "cfg": run.cfg, "stops": run.stopHistory(), "lifecycle": run.lifeHistory(),
				"producer": b.Prod, "batch": b.N, "submit_call": b.Call, "submit_ret": b.Ret, "fence": f, "items": b.Items})
		}
	}
}

func (run *c41Run) stopHistory() []c41StopRec {
	run.mu.Lock()
	defer run.mu.Unlock()
	return append([]c41StopRec(nil), run.stops...)
}

func (run *c41Run) genBatch(rng *rand.Rand, prod, n int) *c29Batch {
	b := &c29Batch{Prod: prod, N: n, Phase: 1}
	ch := rng.IntN(run.cfg.Channels)
	size := 1 + rng.IntN(run.cfg.MaxBatch)
	for i := 0; i < size; i++ {
		from := fmt.Sprintf("u%d", rng.IntN(3))
		u := run.uniq.Add(1)
		if rng.IntN(10) == 0 {
			b.Items = append(b.Items, c29Item{Kind: c29Keyless, Ch: ch, From: from, Payload: fmt.Sprintf("ch%d|%s||u%d", ch, from, u)})
			continue
		}
		no := fmt.Sprintf("k%d", u)
		b.Items = append(b.Items, c29Item{Kind: c29Normal, Ch: ch, From: from, No: no, Payload: c29KeyedPayload(ch, from, no, 0)})
	}
	return b
}

func (run *c41Run) await(b *c29Batch) {
	if b.fut == nil || b.Done {
		return
	}
	run.waiting.Add(1)
	res, err := b.fut.Wait(run.endCtx)
	run.waiting.Add(-1)
	if err != nil {
		// the case is over (endCtx cancelled after the final nil Stop): take the
		// result if the future is complete, otherwise leave it non-terminal.
		if polled, done := c29FutureDone(b.fut); done {
			res, err = polled, nil
		}
	}
	if err == nil {
		b.Res, b.Done = res, true
		b.DoneAt = run.clock.Tick()
	}
}

func (run *c41Run) producer(id int, rng *rand.Rand) {
	defer run.finished.Add(1)
	var outstanding []*c29Batch
	for n := 0; n < run.cfg.Batches; n++ {
		if len(outstanding) >= run.cfg.Depth {
			run.await(outstanding[0])
			outstanding = outstanding[1:]
		}
		b := run.genBatch(rng, id, n)
		run.submit(b)
		if b.fut != nil {
			outstanding = append(outstanding, b)
		}
		if rng.IntN(4) == 0 {
			runtime.Gosched()
		}
	}
	for _, b := range outstanding {
		run.await(b)
	}
}

// waitProgress blocks until the submission counter reached n or every producer
// is blocked on a future / finished (so that nothing more can arrive).
func (run *c41Run) waitProgress(n int64) {
	for i := 0; ; i++ {
		if run.submitted.Load() >= n || run.waiting.Load()+run.finished.Load() >= int64(run.cfg.Producers) {
			return
		}
		if i%8 == 7 {
			time.Sleep(30 * time.Microsecond)
		} else {
			runtime.Gosched()
		}
	}
}

// stop performs one Stop call and evaluates the at-return obligations.
func (run *c41Run) stop(kind string, ctx context.Context, cancel context.CancelFunc) (isNil bool) {
	r := run.r
	run.mu.Lock()
	before := append([]*c29Batch(nil), run.batches...)
	run.mu.Unlock()
	pendingAtCall := 0
	for _, b := range before {
		if b.fut != nil {
			if _, done := c29FutureDone(b.fut); !done {
				pendingAtCall++
			}
		}
	}
	rec := c41StopRec{Kind: kind, Call: run.clock.Tick(), PendingAtCall: pendingAtCall}
	rec.HeldAtCall, rec.PairsAtCall = run.model.ReorderSnapshot()
	r.Count("stop.reorder_held_calls_outstanding_at_call", rec.HeldAtCall)
	r.Count("stop.reorder_pairs_outstanding_at_call", rec.PairsAtCall)
	run.stopInflight.Add(1)
	err := run.group.Stop(ctx)
	// --- the moment Stop returned: evaluate before anything else.
	var pending []*c29Batch
	polled := 0
	var missingPC []c29Record
	if err == nil {
		run.mu.Lock()
		snapshot := append([]*c29Batch(nil), run.batches...)
		run.mu.Unlock()
		for _, b := range snapshot {
			if b.fut == nil {
				continue
			}
			polled++
			if _, done := c29FutureDone(b.fut); !done {
				pending = append(pending, b)
			}
		}
		logs, _, _, _, _ := run.model.Snapshot()
		_, delivered := run.pc.Snapshot()
		for _, log := range logs {
			for _, rec := range log {
				if run.cfg.PostCommit && delivered[rec.ID] == 0 {
					missingPC = append(missingPC, rec)
				}
			}
		}
	}
	rec.Ret = run.clock.Tick()
	run.fence.CompareAndSwap(0, rec.Ret)
	if err == nil {
		run.nilStop.CompareAndSwap(0, rec.Ret)
	}
	run.stopInflight.Add(-1)
	rec.IsNil, rec.Polled = err == nil, polled
	if err != nil {
		rec.Err = err.Error()
	}
	run.mu.Lock()
	run.stops = append(run.stops, rec)
	history := append([]c41StopRec(nil), run.stops...)
	run.mu.Unlock()
	r.Count("stop.calls."+kind, 1)
	if err == nil {
		r.Count("stop.returned_nil."+kind, 1)
		r.Count("stop.futures_polled_at_nil_return", polled)
	} else {
		r.Count("stop.returned_ctx_error."+kind, 1)
	}
	for i, b := range pending {
		if i >= 3 {
			break
		}
		r.Violation("stop-returned-nil-before-admitted-send-terminal", map[string]any{"run": run.idx, "cfg": run.cfg, "stops": history,
			"producer": b.Prod, "batch": b.N, "submit_call": b.Call, "submit_ret": b.Ret, "items": b.Items, "pending_batches": len(pending)})
	}
	for i, m := range missingPC {
		if i >= 3 {
			break
		}
		r.Violation("stop-returned-nil-before-post-commit-effect-ran", map[string]any{"run": run.idx, "cfg": run.cfg, "stops": history, "record": m, "missing": len(missingPC)})
	}
	switch {
	case err == nil:
	case kind == "ample" || kind == "ample_retry":
		r.Count("stop.patience_expired."+kind, 1) // decided by stopAmple after the second attempt
		if ctx.Err() == nil || !errors.Is(err, ctx.Err()) {
			r.Violation("stop-returned-error-other-than-its-context-error", map[string]any{"run": run.idx, "cfg": run.cfg, "stops": history, "ctx_err": fmt.Sprint(ctx.Err())})
		}
	case ctx.Err() == nil || !errors.Is(err, ctx.Err()):
		r.Violation("stop-returned-error-other-than-its-context-error", map[string]any{"run": run.idx, "cfg": run.cfg, "stops": history, "ctx_err": fmt.Sprint(ctx.Err())})
	}
	if cancel != nil {
		cancel()
	}
	// A submission made after Stop returned must be rejected with the stop error.
	probe := &c29Batch{Prod: -1, N: len(history), Phase: 3}
	u := run.uniq.Add(1)
	probe.Items = []c29Item{{Kind: c29Normal, Ch: 0, From: "u0", No: fmt.Sprintf("probe%d", u), Payload: c29KeyedPayload(0, "u0", fmt.Sprintf("probe%d", u), 0)}}
	run.submit(probe)
	run.afterStopLifecycle(kind)
	return err == nil
}

func c41Expired() (context.Context, context.CancelFunc) {
	ctx, cancel := context.WithDeadline(context.Background(), time.Unix(1, 0))
	return ctx, cancel
}

// c41StopPatience is the generous deadline of one "ample" Stop attempt.
const c41StopPatience = 60 * time.Second

func (run *c41Run) openGates() {
	run.model.gate.Open()
	run.pc.gate.Open()
	run.model.SetReorder(0) // release lone held calls, hold no new ones
}

// stopAmple issues the Stop that must return nil: the harness has released (or
// is about to release) every gate and injects nothing that blocks. It is given
// two generous attempts. If both expire while no appender call is executing
// and every gate is open, the drain can never finish: violation. One expiry
// followed by success is only counted; an expiry with appender calls still
// executing is inconclusive.
func (run *c41Run) stopAmple() bool {
	for attempt := 1; attempt <= 2; attempt++ {
		kind := "ample"
		if attempt == 2 {
			kind = "ample_retry"
		}
		ctx, cancel := context.WithTimeout(context.Background(), c41StopPatience)
		if run.stop(kind, ctx, cancel) {
			if attempt == 2 {
				run.r.Count("stop.ample_succeeded_on_second_attempt", 1)
			}
			return true
		}
		run.openGates()
	}
	run.stopFailed.Store(true)
	inflight := run.model.InflightCalls()
	run.mu.Lock()
	snapshot := append([]*c29Batch(nil), run.batches...)
	run.mu.Unlock()
	pending := 0
	var first *c29Batch
	for _, b := range snapshot {
		if b.fut != nil {
			if _, done := c29FutureDone(b.fut); !done {
				pending++
				if first == nil {
					first = b
				}
			}
		}
	}
	if inflight == 0 {
		w := map[string]any{"run": run.idx, "cfg": run.cfg, "stops": run.stopHistory(), "lifecycle": run.lifeHistory(), "patience_s": c41StopPatience.Seconds(), "attempts": 2,
			"appender_calls_executing": inflight, "non_terminal_batches": pending}
		if first != nil {
			w["first_non_terminal"] = map[string]any{"producer": first.Prod, "batch": first.N, "submit_call": first.Call, "submit_ret": first.Ret, "items": first.Items}
		}
		run.r.Violation("stop-never-completes-after-gates-released", w)
	} else {
		run.r.Inconclusive(fmt.Sprintf("case %d: Stop did not return nil within 2 x %v but %d appender calls were still executing", run.idx, c41StopPatience, inflight))
	}
	return false
}

func (run *c41Run) controller() {
	cfg := run.cfg
	openGates := run.openGates
	if cfg.GateAt >= 0 {
		run.waitProgress(int64(cfg.GateAt))
		run.model.gate.Close()
		if cfg.GatePC {
			run.pc.gate.Close()
		}
	}
	run.waitProgress(int64(cfg.StopAt))
	if cfg.PauseBefore {
		run.lifeOp("pause", "controller")
	}
	hold := func() { run.waitProgress(run.submitted.Load() + int64(cfg.Hold)) }
	switch cfg.Scenario {
	case 0:
		done := make(chan bool, 1)
		go func() { done <- run.stopAmple() }()
		hold()
		openGates()
		<-done
	case 1, 3:
		n := 1
		if cfg.Scenario == 3 {
			n = 2
		}
		for i := 0; i < n; i++ {
			if i == 0 {
				ctx, cancel := c41Expired()
				run.stop("expired", ctx, cancel)
			} else {
				ctx, cancel := context.WithCancel(context.Background())
				cancel()
				run.stop("cancelled", ctx, nil)
			}
			hold()
		}
		openGates()
		run.stopAmple()
	case 2:
		ctx, cancel := context.WithTimeout(context.Background(), time.Duration(200+cfg.Hold*50)*time.Microsecond)
		run.stop("short_deadline", ctx, cancel)
		hold()
		openGates()
		run.stopAmple()
	}
	openGates()
	if run.stopFailed.Load() {
		// The drain is stuck; nothing below can be judged. End the case.
		run.lifeCancel()
		<-run.lifeDone
		run.endCancel()
		return
	}
	// Stop on a stopped group returns nil whatever the context.
	ctx, cancel := c41Expired()
	if !run.stop("after_stopped_expired", ctx, cancel) {
		run.r.Violation("stop-after-completed-stop-returned-error", map[string]any{"run": run.idx, "cfg": cfg})
	}
	// Join the independent lifecycle goroutine (its remaining calls now run
	// against a stopped group), then try once more to reopen admission and ask
	// for the final verdict of Stop: nil, with every future terminal.
	run.lifeCancel() // the group is stopped: a WaitIdle still blocked now only stops waiting
	<-run.lifeDone
	run.lifeOp("resume", "controller")
	run.lifeOp("start", "controller")
	ctx, cancel = c41Expired()
	if !run.stop("final_expired", ctx, cancel) {
		run.r.Violation("stop-after-completed-stop-returned-error", map[string]any{"run": run.idx, "cfg": cfg, "stops": run.stopHistory()})
	}
	run.endCancel()
}

func TestVerifC41(t *testing.T) {
	r := verifkit.Start(t, "C41", "append")
	defer r.Finish()
	r.SetRule("One case = one fresh channelappend.Group over a sequential-log store model with gated appends and a gated PersistAfter sink; config (2-12 producers, 1-5 channels, shards, advance/effect pools, admission / backlog / handoff limits, AppendInflightBatchesPerChannel in {default,2,3,8} with an appender that on purpose lets a later same-channel batch return before an earlier held one, inbox coalescing, writer idle retention, PersistAfter on/off, sender fence, observers, clock, pipeline depth, fail-before-apply rate, gate instant, Stop instant, scenario: ample / expired+ample / short deadline+ample / expired+cancelled+ample, hold length; plus a PRNG plan of Start / PauseForRestore / ResumeAfterRestore / WaitIdle / ResetAfterRestore / ApplySubscriberMutation calls issued by an independent goroutine at PRNG instants and by the controller right after every Stop return, optionally a PauseForRestore right before the Stop scenario) and the producers' plans are PRNG functions of (seed, case). Non-trivial = at least one Stop call returned while admitted sends were still unfinished or gated (so the drain had real work), at least one submission was admitted before and one rejected after the fence. Distinct = (scenario, producers, channels, gate mode, log2 buckets of admitted-before / rejected-after / in-flight-at-stop).")
	r.Assume("The fake appender honours its context like the real one (a cancelled append context fails the batch); item contexts are never cancelled by the harness, and the appender only injects failures before applying, so 'record stored <=> success' is exact.")

	nRuns := r.N(600, 8000)
	for i := 0; i < nRuns; i++ {
		if r.Skip(i) {
			continue
		}
		rng := r.Rand(41, uint64(i))
		cfg := c41GenCfg(rng)
		r.BeginCase(i, fmt.Sprintf("%+v", cfg))
		run := &c41Run{r: r, idx: i, cfg: cfg, clock: &verifkit.Clock{}, lrng: r.Rand(41, uint64(i), 7), lifeDone: make(chan struct{})}
		run.endCtx, run.endCancel = context.WithCancel(context.Background())
		run.lifeCtx, run.lifeCancel = context.WithCancel(run.endCtx)
		ok := verifkit.Watchdog(300*time.Second, func() { run.execute(rng) })
		if !ok {
			r.Inconclusive(fmt.Sprintf("case %d: watchdog (300s) expired (a Stop or an admitted future never finished); cfg=%+v", i, cfg))
			r.Count("runs.watchdog", 1)
			run.model.gate.Open()
			run.pc.gate.Open()
			run.endCancel()
			if r.NumViolations() > 0 {
				break // already decided; do not spend the budget on hung cases
			}
		}
		if run.stopFailed.Load() && r.NumViolations() > 0 {
			// every further stuck drain costs two patience periods; the verdict is in
			r.Count("runs.not_executed_after_stuck_stop_verdict", nRuns-i-1)
			break
		}
	}
}

func (run *c41Run) execute(rng *rand.Rand) {
	r, cfg := run.r, run.cfg
	run.model = newC29Model(run.clock, r.Rand(41, uint64(run.idx), 1), cfg.Faults)
	run.pc = newC29PostCommit(run.clock, cfg.Faults.Latency)
	for c := 0; c < cfg.Channels; c++ {
		run.chans = append(run.chans, ca.ChannelID{ID: fmt.Sprintf("c41r%dch%d", run.idx, c), Type: 2})
	}
	ids := &c29IDs{}
	ids.n.Store(uint64(5000 + rng.IntN(1_000_000)))
	opts := ca.Options{LocalNodeID: 1, Appender: run.model, Idempotency: run.model, MessageID: ids,
		AuthorityShardCount: cfg.Shards, AdvancePoolSize: cfg.Advance, EffectPoolSize: cfg.Effect,
		AdmissionCapacityPerShard: cfg.AdmitCap, ChannelBacklogHighWatermark: cfg.Backlog,
		AppendInflightBatchesPerChannel: cfg.Inflight, PostCommitHandoffCapacity: cfg.HandoffCap, InboxCoalesceMaxItems: cfg.CoalesceMax,
		WriterIdleRetention: time.Duration(cfg.IdleRetention) * time.Microsecond}
	if cfg.PostCommit {
		opts.PersistAfterEnqueuer = run.pc
	}
	if cfg.SenderFence {
		opts.SenderFence = c41Fence{}
	}
	if cfg.Observer {
		opts.Observer = &c41Observer{}
	}
	if cfg.FakeClock {
		opts.Clock = c41Clock{}
	}
	run.model.SetReorder(cfg.Reorder)
	r.Count(fmt.Sprintf("cases.inflight_%d", cfg.Inflight), 1)
	if cfg.Reorder > 0 {
		r.Count("cases.reorder_mode", 1)
	}
	switch cfg.Coalesce {
	case -1:
		opts.InboxCoalesceWindow = -1
	case 1:
		opts.InboxCoalesceWindow = time.Millisecond
		if opts.InboxCoalesceMaxItems == 0 {
			opts.InboxCoalesceMaxItems = 64
		}
	}
	run.group = ca.New(opts)
	if err := run.group.Start(context.Background()); err != nil {
		r.Inconclusive(fmt.Sprintf("case %d: Start: %v", run.idx, err))
		return
	}
	var wg sync.WaitGroup
	for p := 0; p < cfg.Producers; p++ {
		prng := r.Rand(41, uint64(run.idx), 100+uint64(p))
		wg.Add(1)
		go func(p int) {
			defer wg.Done()
			run.producer(p, prng)
		}(p)
	}
	go run.lifecycler(r.Rand(41, uint64(run.idx), 8))
	run.controller()
	wg.Wait()
	run.mu.Lock()
	all := append([]*c29Batch(nil), run.batches...)
	run.mu.Unlock()
	for _, b := range all {
		run.await(b) // probes (and anything wrongly admitted late) are awaited here
	}
	run.judge()
}

func (run *c41Run) judge() {
	r, cfg := run.r, run.cfg
	logs, _, seen, cnt, _ := run.model.Snapshot()
	for k, v := range cnt {
		r.Count(k, v)
	}
	run.mu.Lock()
	batches := append([]*c29Batch(nil), run.batches...)
	stops := append([]c41StopRec(nil), run.stops...)
	run.mu.Unlock()
	if n := run.model.ctxCancelled.Load(); n > 0 {
		r.Violation("append-context-cancelled-while-admitted-append-in-flight", map[string]any{"run": run.idx, "cfg": cfg, "stops": stops, "appends_cancelled": n})
	}
	byPayload := map[string]c29Record{}
	for _, log := range logs {
		for _, rec := range log {
			byPayload[rec.Payload] = rec
		}
	}
	fence := run.fence.Load()
	firstStopCall := int64(0)
	firstNil := int64(0)
	for _, s := range stops {
		if firstStopCall == 0 {
			firstStopCall = s.Call
		}
		if s.IsNil && firstNil == 0 {
			firstNil = s.Ret
		}
	}
	admittedBefore, rejectedAfter, inflightAtStop, hung := 0, 0, 0, 0
	witness := func(b *c29Batch, i int, extra map[string]any) map[string]any {
		w := map[string]any{"run": run.idx, "cfg": cfg, "stops": stops, "producer": b.Prod, "batch": b.N, "index": i, "submit_call": b.Call, "submit_ret": b.Ret, "done_at": b.DoneAt, "items": b.Items}
		if b.Done {
			w["results"] = c29ResKeys(b.Res)
		}
		if b.Err != nil {
			w["submit_err"] = b.Err.Error()
		}
		for k, v := range extra {
			w[k] = v
		}
		return w
	}
	for _, b := range batches {
		r.Eval(1)
		after := fence != 0 && b.Call > fence
		if b.fut != nil && b.Err != nil {
			r.Violation("submitlocal-returned-future-and-error", witness(b, -1, nil))
		}
		if b.fut == nil && b.Err == nil {
			r.Violation("submitlocal-returned-neither-future-nor-error", witness(b, -1, nil))
			continue
		}
		if b.fut == nil {
			// ---- rejected submission.
			r.Count("submit.rejected."+c29ErrClass(ca.SendBatchItemResult{Err: b.Err}), 1)
			if after {
				rejectedAfter++
				if !errors.Is(b.Err, ca.ErrRouteNotReady) {
					r.Violation("submission-after-stop-not-rejected-with-stop-error", witness(b, -1, nil))
				}
			}
			for i, it := range b.Items {
				if _, ok := byPayload[it.Payload]; ok || seen[it.Payload] > 0 {
					r.Violation("rejected-submission-reached-appender", witness(b, i, map[string]any{"appender_calls": seen[it.Payload]}))
				}
			}
			continue
		}
		// ---- admitted submission.
		if after {
			r.Count("admitted.after_fence", 1) // violation already recorded online by submit()
		}
		if firstStopCall != 0 && b.Ret < firstStopCall {
			admittedBefore++
		}
		if !b.Done {
			hung++
			continue
		}
		if len(b.Res) != len(b.Items) {
			r.Violation("result-count-differs-from-item-count", witness(b, -1, nil))
			continue
		}
		if firstNil != 0 && b.Ret < firstNil && b.DoneAt > firstNil {
			r.Count("admitted.result_observed_after_nil_stop_return", 1) // observation lag of the producer goroutine; the at-return poll decides
		}
		for i, it := range b.Items {
			res := b.Res[i]
			class := c29ErrClass(res)
			r.Count("admitted.result."+class, 1)
			rec, stored := byPayload[it.Payload]
			if errors.Is(res.Err, context.Canceled) || errors.Is(res.Err, context.DeadlineExceeded) {
				r.Violation("admitted-send-cancelled", witness(b, i, map[string]any{"stored": stored}))
				continue
			}
			switch {
			case stored && !c29IsSuccess(res):
				r.Violation("appended-send-not-reported-success", witness(b, i, map[string]any{"record": rec, "class": class}))
			case stored && (res.Result.MessageID != rec.ID || res.Result.MessageSeq != rec.Seq):
				r.Violation("success-differs-from-stored-record", witness(b, i, map[string]any{"record": rec}))
			case !stored && c29IsSuccess(res):
				r.Violation("success-without-stored-record", witness(b, i, nil))
			case !stored && seen[it.Payload] == 0 && class != "err_channel_busy":
				r.Violation("admitted-send-failed-without-reaching-appender", witness(b, i, map[string]any{"class": class}))
			case !stored:
				switch class {
				case "err_append_failed", "err_not_leader", "err_stale_route", "err_route_not_ready", "err_backpressured", "err_channel_not_found", "err_channel_busy":
				default:
					r.Violation("admitted-send-failed-with-error-nobody-injected", witness(b, i, map[string]any{"class": class}))
				}
			}
		}
	}
	if hung > 0 {
		// endCtx is cancelled only after the final Stop returned; a future that
		// is still incomplete then will never be completed by anybody.
		if len(stops) > 0 && stops[len(stops)-1].IsNil {
			r.Violation("admitted-send-never-terminal-after-final-stop", map[string]any{"run": run.idx, "cfg": cfg, "stops": stops, "lifecycle": run.lifeHistory(), "non_terminal_batches": hung})
		} else if run.stopFailed.Load() {
			r.Count("admitted.non_terminal_batches_after_stuck_stop", hung) // verdict given by stopAmple
		} else {
			r.Inconclusive(fmt.Sprintf("case %d: %d admitted batches without result and the final Stop did not return nil", run.idx, hung))
		}
	}
	run.judgeLifecycle(batches, stops)
	r.Count("runs.finished", 1)
	r.Count("admitted.before_first_stop_call", admittedBefore)
	r.Count("rejected.after_fence", rejectedAfter)
	stopWithWork := false
	pendingAtStop := 0
	for _, s := range stops {
		if !s.IsNil || s.PendingAtCall > 0 {
			stopWithWork = true
		}
		if s.PendingAtCall > pendingAtStop {
			pendingAtStop = s.PendingAtCall
		}
	}
	r.Count("stop.pending_batches_at_call", pendingAtStop)
	inflightAtStop = pendingAtStop
	if stopWithWork && admittedBefore > 0 && rejectedAfter > 0 {
		lg := func(n int) int {
			b := 0
			for n > 0 {
				b++
				n >>= 1
			}
			return b
		}
		gate := "none"
		if cfg.GateAt >= 0 {
			gate = "append"
			if cfg.GatePC {
				gate = "append+pc"
			}
		}
		r.Nontrivial(fmt.Sprintf("s%d/p%d/c%d/%s/a%d/r%d/f%d", cfg.Scenario, cfg.Producers, cfg.Channels, gate, lg(admittedBefore), lg(rejectedAfter), lg(inflightAtStop)))
	}
	if r.WantSample() {
		r.Sample(map[string]any{"run": run.idx, "cfg": cfg, "stops": stops, "batches": len(batches), "admitted_before_stop": admittedBefore, "in_flight_at_stop": inflightAtStop, "rejected_after_fence": rejectedAfter})
	}
}

// ---------------------------------------------------------------------------
// Optional ports.

type c41Fence struct{}

func (c41Fence) ValidateSender(context.Context, ca.SendCommand) error { return nil }

type c41Clock struct{}

func (c41Clock) Now() time.Time { return time.Unix(1_700_000_000, 0) }

// c41Observer implements AppendObserver and the optional pressure / effect /
// pool / admission observer interfaces (this enables the group's pressure
// publisher goroutine, which Stop has to shut down as well).
type c41Observer struct{ n atomic.Int64 }

func (o *c41Observer) AppendFinished(string, error, time.Duration)                       { o.n.Add(1) }
func (o *c41Observer) SetChannelAppendWriterPressure(ca.WriterPressureObservation)       { o.n.Add(1) }
func (o *c41Observer) ObserveChannelAppendEffect(ca.EffectObservation)                   { o.n.Add(1) }
func (o *c41Observer) ObserveChannelAppendEffectPool(ca.EffectPoolObservation)           { o.n.Add(1) }
func (o *c41Observer) ObserveChannelAppendAntsPool(ca.AntsPoolObservation)               { o.n.Add(1) }
func (o *c41Observer) ObserveChannelAppendLocalAdmission(ca.LocalAdmissionObservation)   { o.n.Add(1) }
func (o *c41Observer) ObserveChannelAppendPostCommitFailure(ca.PostCommitFailureObservation) {
	o.n.Add(1)
}
func (o *c41Observer) ObserveChannelAppendIdempotencyRecovery(ca.IdempotencyRecoveryObservation) {
	o.n.Add(1)
}
