// Package verifkit is the shared monitor library of /verif. It is never part
// of /repo: the runner overlays it at /repo/pkg/verifkit at build time.
//
// A harness is an ordinary Go test function:
//
//	func TestVerifC05(t *testing.T) {
//		r := verifkit.Start(t, "C05", "main")
//		defer r.Finish()
//		for i := 0; i < r.N(2000, 40000); i++ {
//			rng := r.Rand(uint64(i))
//			r.BeginCase(i, "...")
//			...
//			r.Eval(1); r.Nontrivial(fingerprint)
//			if bad { r.Violation("short-stable-signature", witness) }
//		}
//	}
//
// Finish writes one JSON fragment to $VERIF_OUT/<prop>.<unit>.json; the runner
// merges fragments into /verif/evidence/<prop>.json and decides the verdict.
package verifkit

import (
	"encoding/json"
	"fmt"
	"math/rand/v2"
	"os"
	"path/filepath"
	"runtime/debug"
	"sort"
	"strconv"
	"sync"
	"sync/atomic"
	"testing"
	"time"
)

// Violation is one refuting observation.
type Violation struct {
	// Sig is a short, stable, witness-specific signature (matched against
	// known_findings.json by the runner).
	Sig string `json:"sig"`
	// Case is the case index active when the violation was recorded (-1 if none).
	Case int `json:"case"`
	// CaseDesc is the descriptor given to BeginCase.
	CaseDesc string `json:"case_desc,omitempty"`
	// Witness is the recorded history / explanation.
	Witness any `json:"witness,omitempty"`
}

// Fragment is what one harness unit reports to the runner.
type Fragment struct {
	Property      string           `json:"property"`
	Unit          string           `json:"unit"`
	Seed          uint64           `json:"seed"`
	Tier          string           `json:"tier"`
	Evaluations   int64            `json:"evaluations"`
	Distinct      int              `json:"distinct_nontrivial"`
	Rule          string           `json:"rule"`
	Samples       []any            `json:"samples"`
	Counters      map[string]int64 `json:"counters"`
	Assumptions   []string         `json:"assumptions,omitempty"`
	Notes         map[string]any   `json:"notes,omitempty"`
	Violations    []Violation      `json:"violations,omitempty"`
	NumViolations int              `json:"num_violations"`
	Inconclusive  []string         `json:"inconclusive,omitempty"`
	WallS         float64          `json:"wall_s"`
	Finished      bool             `json:"finished"`
	// Panicked holds the panic value and stack if the test function panicked
	// while Finish ran as a deferred call (the runner attributes it).
	Panicked string `json:"panicked,omitempty"`
}

// Run is the per-unit monitor context. All methods are safe for concurrent use.
type Run struct {
	t     testing.TB
	Prop  string
	Unit  string
	Seed  uint64
	Tier  string
	start time.Time

	mu           sync.Mutex
	evals        int64
	nontrivial   map[string]struct{}
	counters     map[string]int64
	samples      []any
	violations   []Violation
	nviol        int
	rule         string
	assumptions  []string
	notes        map[string]any
	inconclusive []string
	curCase      int
	curDesc      string
	caseLog      *os.File
	finished     bool
	onlyCase     int
}

const maxKeptViolations = 10
const maxSamples = 4

// Start creates the monitor context for property prop, unit unit.
func Start(t testing.TB, prop, unit string) *Run {
	r := &Run{t: t, Prop: prop, Unit: unit, Seed: 1, Tier: "quick", start: time.Now(),
		nontrivial: map[string]struct{}{}, counters: map[string]int64{}, notes: map[string]any{},
		curCase: -1, onlyCase: -1}
	if s := os.Getenv("VERIF_SEED"); s != "" {
		if v, err := strconv.ParseUint(s, 10, 64); err == nil {
			r.Seed = v
		} else if v, err := strconv.ParseInt(s, 10, 64); err == nil {
			r.Seed = uint64(v)
		}
	}
	if s := os.Getenv("VERIF_TIER"); s == "thorough" {
		r.Tier = "thorough"
	}
	if s := os.Getenv("VERIF_ONLY_CASE"); s != "" {
		if v, err := strconv.Atoi(s); err == nil {
			r.onlyCase = v
		}
	}
	if dir := os.Getenv("VERIF_OUT"); dir != "" {
		f, err := os.OpenFile(filepath.Join(dir, prop+"."+unit+".cases.log"), os.O_CREATE|os.O_WRONLY|os.O_APPEND, 0o644)
		if err == nil {
			r.caseLog = f
		}
	}
	return r
}

// Thorough reports whether the thorough tier was requested.
func (r *Run) Thorough() bool { return r.Tier == "thorough" }

// N picks a budget by tier.
func (r *Run) N(quick, thorough int) int {
	if r.Thorough() {
		return thorough
	}
	return quick
}

// Skip reports whether case i is excluded by VERIF_ONLY_CASE (replay of one case).
func (r *Run) Skip(i int) bool { return r.onlyCase >= 0 && r.onlyCase != i }

func splitmix(x uint64) uint64 {
	x += 0x9e3779b97f4a7c15
	z := x
	z = (z ^ (z >> 30)) * 0xbf58476d1ce4e5b9
	z = (z ^ (z >> 27)) * 0x94d049bb133111eb
	return z ^ (z >> 31)
}

// Rand returns a deterministic PRNG for (seed, stream...). Not safe for
// concurrent use; take one per goroutine with distinct streams.
func (r *Run) Rand(stream ...uint64) *rand.Rand {
	a := splitmix(r.Seed ^ 0x5eed)
	b := splitmix(r.Seed + 0xabcdef)
	for _, s := range stream {
		a = splitmix(a ^ s)
		b = splitmix(b + s*0x9e3779b97f4a7c15 + 1)
	}
	return rand.New(rand.NewPCG(a, b))
}

// BeginCase records the case about to run (written and synced to the case log
// so that a process-fatal event is attributable).
func (r *Run) BeginCase(i int, desc string) {
	r.mu.Lock()
	r.curCase, r.curDesc = i, desc
	f := r.caseLog
	r.mu.Unlock()
	if f != nil {
		fmt.Fprintf(f, "case %d %s\n", i, desc)
	}
}

// Eval adds n executed evaluations.
func (r *Run) Eval(n int) { atomic.AddInt64(&r.evals, int64(n)) }

// Nontrivial records the fingerprint of a case that is non-trivial by the
// unit's rule; distinct fingerprints are counted.
func (r *Run) Nontrivial(fp string) {
	r.mu.Lock()
	if len(r.nontrivial) < 2_000_000 {
		r.nontrivial[fp] = struct{}{}
	}
	r.mu.Unlock()
}

// Count adds n to a named observation counter.
func (r *Run) Count(key string, n int) {
	r.mu.Lock()
	r.counters[key] += int64(n)
	r.mu.Unlock()
}

// Max keeps the maximum of a named gauge.
func (r *Run) Max(key string, v int) {
	r.mu.Lock()
	if int64(v) > r.counters[key] {
		r.counters[key] = int64(v)
	}
	r.mu.Unlock()
}

// Sample keeps up to maxSamples example cases.
func (r *Run) Sample(v any) {
	r.mu.Lock()
	if len(r.samples) < maxSamples {
		r.samples = append(r.samples, v)
	}
	r.mu.Unlock()
}

// WantSample reports whether another sample would be kept (lets harnesses avoid
// building expensive sample values).
func (r *Run) WantSample() bool {
	r.mu.Lock()
	defer r.mu.Unlock()
	return len(r.samples) < maxSamples
}

// SetRule states how cases are generated and what makes one non-trivial.
func (r *Run) SetRule(s string) { r.mu.Lock(); r.rule = s; r.mu.Unlock() }

// Assume records a standing assumption of this unit.
func (r *Run) Assume(s string) { r.mu.Lock(); r.assumptions = append(r.assumptions, s); r.mu.Unlock() }

// Note stores an arbitrary extra evidence value.
func (r *Run) Note(k string, v any) { r.mu.Lock(); r.notes[k] = v; r.mu.Unlock() }

// Inconclusive records that part of the unit could not decide (watchdog,
// checker timeout, hook never reached). Never folded into held or violated.
func (r *Run) Inconclusive(reason string) {
	r.mu.Lock()
	r.inconclusive = append(r.inconclusive, reason)
	r.mu.Unlock()
}

// Violation records a refuting observation. sig must be short and stable for
// the same defect (no addresses, no random payload bytes).
func (r *Run) Violation(sig string, witness any) {
	r.mu.Lock()
	r.nviol++
	if len(r.violations) < maxKeptViolations {
		r.violations = append(r.violations, Violation{Sig: sig, Case: r.curCase, CaseDesc: r.curDesc, Witness: witness})
	}
	r.mu.Unlock()
}

// Violationf is Violation with a formatted string witness.
func (r *Run) Violationf(sig, format string, args ...any) {
	r.Violation(sig, fmt.Sprintf(format, args...))
}

// NumViolations returns the number recorded so far.
func (r *Run) NumViolations() int { r.mu.Lock(); defer r.mu.Unlock(); return r.nviol }

// Guard runs fn and converts a panic into a violation with signature
// "panic:"+sigPrefix. It returns true if fn panicked.
func (r *Run) Guard(sigPrefix string, input any, fn func()) (panicked bool) {
	defer func() {
		if p := recover(); p != nil {
			panicked = true
			r.Violation("panic:"+sigPrefix, map[string]any{"panic": fmt.Sprint(p), "input": input, "stack": string(debug.Stack())})
		}
	}()
	fn()
	return false
}

// Finish writes the fragment. Call it with defer right after Start.
func (r *Run) Finish() {
	var panicked string
	if p := recover(); p != nil {
		panicked = fmt.Sprintf("panic: %v\n\n%s", p, debug.Stack())
		defer panic(p)
	}
	r.mu.Lock()
	if r.finished {
		r.mu.Unlock()
		return
	}
	r.finished = true
	fr := Fragment{Property: r.Prop, Unit: r.Unit, Seed: r.Seed, Tier: r.Tier,
		Evaluations: atomic.LoadInt64(&r.evals), Distinct: len(r.nontrivial), Rule: r.rule,
		Samples: r.samples, Counters: r.counters, Assumptions: r.assumptions, Notes: r.notes,
		Violations: r.violations, NumViolations: r.nviol, Inconclusive: r.inconclusive,
		WallS: time.Since(r.start).Seconds(), Finished: true, Panicked: panicked}
	if fr.Samples == nil {
		fr.Samples = []any{}
	}
	r.mu.Unlock()
	if r.caseLog != nil {
		r.caseLog.Close()
	}
	b, err := json.MarshalIndent(fr, "", " ")
	if err != nil {
		// A witness that cannot be marshalled must not hide the verdict.
		for i := range fr.Violations {
			fr.Violations[i].Witness = fmt.Sprintf("%+v", fr.Violations[i].Witness)
		}
		fr.Samples = []any{fmt.Sprintf("%+v", fr.Samples)}
		b, _ = json.MarshalIndent(fr, "", " ")
	}
	if dir := os.Getenv("VERIF_OUT"); dir != "" {
		p := filepath.Join(dir, r.Prop+"."+r.Unit+".json")
		if err := os.WriteFile(p, b, 0o644); err != nil {
			r.t.Errorf("verifkit: write fragment: %v", err)
		}
	} else {
		keys := make([]string, 0, len(fr.Counters))
		for k := range fr.Counters {
			keys = append(keys, k)
		}
		sort.Strings(keys)
		r.t.Logf("verifkit %s/%s: evals=%d distinct=%d violations=%d counters=%v", r.Prop, r.Unit, fr.Evaluations, fr.Distinct, fr.NumViolations, fr.Counters)
	}
	if fr.NumViolations > 0 {
		for _, v := range fr.Violations {
			r.t.Errorf("VERIF-VIOLATION %s sig=%s case=%d", r.Prop, v.Sig, v.Case)
		}
	}
}

// ---------------------------------------------------------------------------
// Logical clock and history recorder (client-boundary call/return logs).

// Clock is a monotonic logical clock shared by all recorders of a case.
type Clock struct{ n atomic.Int64 }

// Tick returns the next timestamp.
func (c *Clock) Tick() int64 { return c.n.Add(1) }

// Now returns the current value without advancing.
func (c *Clock) Now() int64 { return c.n.Load() }

// Op is one recorded operation.
type Op struct {
	Client int   `json:"client"`
	Call   int64 `json:"call"`
	Return int64 `json:"ret"`
	Input  any   `json:"in"`
	Output any   `json:"out"`
}

// Recorder collects operations from concurrent clients.
type Recorder struct {
	Clock *Clock
	mu    sync.Mutex
	ops   []Op
}

// NewRecorder makes a recorder with its own clock.
func NewRecorder() *Recorder { return &Recorder{Clock: &Clock{}} }

// Do records call time, runs fn, records return time and output.
func (h *Recorder) Do(client int, input any, fn func() any) any {
	call := h.Clock.Tick()
	out := fn()
	ret := h.Clock.Tick()
	h.mu.Lock()
	h.ops = append(h.ops, Op{Client: client, Call: call, Return: ret, Input: input, Output: out})
	h.mu.Unlock()
	return out
}

// Ops returns a copy of the history sorted by call time.
func (h *Recorder) Ops() []Op {
	h.mu.Lock()
	out := append([]Op(nil), h.ops...)
	h.mu.Unlock()
	sort.Slice(out, func(i, j int) bool { return out[i].Call < out[j].Call })
	return out
}

// Watchdog runs fn and reports whether it returned within d. It is a
// generous wall-clock guard whose firing means "inconclusive", never a verdict
// by itself. The goroutine is leaked on expiry.
func Watchdog(d time.Duration, fn func()) bool {
	done := make(chan struct{})
	go func() { defer close(done); fn() }()
	select {
	case <-done:
		return true
	case <-time.After(d):
		return false
	}
}

// Hex8 renders a short hex of b for fingerprints/samples.
func Hex8(b []byte) string {
	const hexd = "0123456789abcdef"
	n := len(b)
	if n > 8 {
		n = 8
	}
	out := make([]byte, 0, 2*n+8)
	for i := 0; i < n; i++ {
		out = append(out, hexd[b[i]>>4], hexd[b[i]&15])
	}
	if len(b) > 8 {
		out = append(out, []byte(fmt.Sprintf("..(%d)", len(b)))...)
	}
	return string(out)
}
