#!/bin/sh
# Builds the /verif runner offline and warms the Go build cache with every
# harness binary compiled against the current /repo working tree.
set -e
cd "$(dirname "$0")"
for c in /root/go/pkg/mod/golang.org/toolchain@v0.0.1-go1.25.11.linux-amd64/bin /opt/veriftools/go1.26.8/bin; do
  if [ -x "$c/go" ]; then PATH="$c:$PATH"; break; fi
done
export PATH GOFLAGS=-mod=mod GOPROXY=off GOSUMDB=off GOTOOLCHAIN=local GOWORK=off
mkdir -p bin evidence replays
go build -o bin/vcheck ./cmd/vcheck
bin/vcheck --gen-manifest >/dev/null
if [ "${VERIF_SKIP_PREBUILD:-0}" != "1" ]; then
  bin/vcheck --prebuild -j 6 || true
fi
echo "setup ok"
