#!/usr/bin/env python3
"""Regenerates DESIGN.md sections 11.4 (seeded changes and which checks catch them) and
11.5 (as-built table) between marker comments."""
import json, glob, os, re
root = '/verif'
rows = []
for d in sorted(glob.glob(root + '/seeded/*/meta.json')):
    m = json.load(open(d))
    name = os.path.basename(os.path.dirname(d))
    rows.append((name, m.get('property', ''), (m.get('summary', '') or '').replace('\n', ' ').replace('|', '\\|')[:330],
                 (m.get('needs_to_manifest', '') or '').replace('\n', ' ').replace('|', '\\|')[:260],
                 m.get('caught_by_check', ''), (m.get('check_result', '') or '').replace('|', '\\|')[:300]))
s114 = ["### 11.4 Seeded changes and which checks catch them\n",
        "Each change below was written by a fresh sub-agent that saw only the property text and its own scratch worktree (nothing from /verif). Each was confirmed by the lead before being kept: it compiles, its demonstration fails with the change and passes without it (`tools/seed_validate.sh`), and the existing suite passes with it (seeder's run; the machine was heavily loaded, so timing-flaky tests were re-run with and without the change). The check was run against the changed tree (`VERIF_REPO=<worktree> bin/vcheck <ID>`); where the first version of a check missed the change, the check was strengthened (more workload/observability, never a special case for the seed) and re-run; `caught` says which.\n",
        "| seed | property | change (seeder's summary) | needs to manifest | caught | signature(s) / note |", "|---|---|---|---|---|---|"]
for r in rows:
    s114.append("| %s | %s | %s | %s | %s | %s |" % r)
n = len(rows); after = sum(1 for r in rows if 'after' in r[4]); yes = sum(1 for r in rows if r[4] == 'yes')
s114.append("\n%d seeded changes kept: %d caught by the check as first written, %d caught after strengthening the check, %d not caught (listed with the reason)." % (n, yes, after, n - yes - after))
s115 = ["### 11.5 As-built table (generated from checks.d)\n", "| id | level | units (package : race) | deciding technique | floor for distinct_nontrivial |", "|---|---|---|---|---|"]
for f in sorted(glob.glob(root + '/checks.d/*.json')):
    d = json.load(open(f))
    for k, v in d.items():
        units = '; '.join('%s (%s : %s%s)' % (u['name'], u['pkg'], 'race' if u.get('race') else 'no race', ', thorough only' if u.get('thorough_only') else '') for u in v['units'])
        s115.append("| %s | %s | %s | %s | %s |" % (k, v['level'], units, (v.get('technique', '') or '').replace('|', '\\|'), v.get('min_nontrivial', '')))
txt = open(root + '/DESIGN.md').read()
block = "<!-- BEGIN GENERATED 11.4-11.5 -->\n" + "\n".join(s114) + "\n\n" + "\n".join(s115) + "\n<!-- END GENERATED 11.4-11.5 -->"
if '<!-- BEGIN GENERATED 11.4-11.5 -->' in txt:
    txt = re.sub(r'<!-- BEGIN GENERATED 11\.4-11\.5 -->.*<!-- END GENERATED 11\.4-11\.5 -->', lambda m: block, txt, flags=re.S)
else:
    txt += "\n" + block + "\n"
kf = json.load(open(root + '/known_findings.json'))
t112 = ["| property | id | status | commit | what fails |", "|---|---|---|---|---|"]
for e in kf:
    t112.append("| %s | %s | %s | %s | %s |" % (e['property'], e['id'], e['status'], e.get('commit', ''), e['what'].replace('|', '\\|').replace('\n', ' ')[:460]))
blk2 = "<!-- BEGIN GENERATED 11.2 TABLE -->\n" + "\n".join(t112) + "\n<!-- END GENERATED 11.2 TABLE -->"
txt = re.sub(r'<!-- BEGIN GENERATED 11\.2 TABLE -->.*<!-- END GENERATED 11\.2 TABLE -->', lambda m: blk2, txt, flags=re.S)
open(root + '/DESIGN.md', 'w').write(txt)
print('seeds', n, 'yes', yes, 'after', after)
