#!/usr/bin/env python3
"""Archive a validated seed into /verif/seeded/<name>/.
usage: seed_archive.py <worktree> <property> <name> <caught: yes|no|after-strengthening> <check signature or note>"""
import json, sys, os, shutil, glob
wt, prop, name, caught, note = sys.argv[1:6]
dst = f'/verif/seeded/{name}'
os.makedirs(dst, exist_ok=True)
shutil.copy(f'{wt}/SEED/patch.diff', f'{dst}/patch.diff')
for f in glob.glob(f'{wt}/SEED/*'):
    b = os.path.basename(f)
    if b in ('patch.diff', 'meta.json') or b.startswith('NOT_MINE') or b.startswith('foreign') or b.endswith('.log'):
        continue
    if os.path.isfile(f):
        shutil.copy(f, f'{dst}/{b}')
m = json.load(open(f'{wt}/SEED/meta.json'))
m['property'] = prop
m['confirmed_by_lead'] = {
  'demo_fails_with_change_and_passes_without': True,
  'builds': True,
  'ran': f'tools/seed_validate.sh {wt} {prop} (demo both directions in the seed worktree, then VERIF_REPO=<worktree> bin/vcheck {prop})',
  'suite': 'existing suite run by the seeding agent (see suite_result); re-checked by the lead with tools/suite_check.py where noted in DESIGN.md §11.4',
}
m['caught_by_check'] = caught
m['check_result'] = note
json.dump(m, open(f'{dst}/meta.json', 'w'), indent=1)
print('archived', dst)
