#!/usr/bin/env python3
"""Prints the prompt for an independent mutation-seeding sub-agent and creates its worktree.
usage: seed_prompt.py <property id> <tag>"""
import json, sys, subprocess, os
pid, tag = sys.argv[1], sys.argv[2]
prop = None
for l in open('/verif/properties.jsonl'):
    p = json.loads(l)
    if p['id'] == pid:
        prop = p
wt = f'/tmp/seed/{pid}{tag}'
if not os.path.exists(wt):
    subprocess.check_call(['git', '-C', '/repo', 'worktree', 'add', '--detach', wt, 'HEAD', '-q'])
prior = ''
import glob
for mf in sorted(glob.glob(f'/verif/seeded/{pid}*/meta.json')):
    try:
        pm = json.load(open(mf))
        prior += "\n  - " + (pm.get('summary','') or '').replace('\n',' ')[:400]
    except Exception:
        pass
if prior:
    prior = "\nOther engineers have already broken this property in the following ways; choose a DIFFERENT mechanism, a different code site and a different manifestation condition (prefer the part of the statement those did not touch; prefer bugs that need concurrency, a crash/fault at a particular point, or a long multi-step history):" + prior + "\n"
print(f"""You are helping to test a verification framework by playing the role of a developer who introduces a subtle bug. You work ONLY inside the scratch git worktree {wt} (a copy of the WuKongIM repository, a distributed instant-messaging server written in Go). Do not read, list or use anything under /verif (it is off limits: your work must be independent of it) and do not touch /repo.

The property you must break:
  id: {prop['id']}
  title: {prop['title']}
  statement: {prop['statement']}
  holds for: {prop['quantifier']['text']}
  code it is anchored in: {', '.join(prop['anchors']['files'])}

{prior}
Task: change the NON-TEST source code in {wt} so that this property no longer holds, while
 1. the tree still compiles: `go build ./...`;
 2. the existing test suite still passes: run the tests of every package you touched and of every package that (transitively) imports them — find them with `go list -deps`/`go list -f '{{.ImportPath}} {{.Imports}}' ./...` or simply `go test -vet=off -count=1 ./pkg/... ./internal/... 2>&1 | grep -v '^ok\\|no test files' | tail -30` restricted to the relevant sub-trees (the machine is shared and very busy: do NOT run the whole `./...` suite more than once, be patient; a handful of timing-sensitive tests are known to be flaky under load on an unchanged tree — if something fails, re-run that single package with your change reverted (`git apply -R` of your saved diff, never `git stash`) to see whether it also fails without your change);
 3. the bug needs something SPECIFIC to manifest — a particular interleaving, a crash or fault at a particular point, a multi-step sequence of operations, an unusual input, or two cooperating sites that each look fine alone — not something ordinary use (or any existing test) would expose at once;
 4. it is realistic: the kind of mistake a competent developer could make in a refactor, an optimisation or a "simplification"; keep the diff small (roughly ≤ 40 changed lines), do not add dead code or comments that announce the bug, do not edit existing tests.
Also write a demonstration: a new Go test file (placed in the appropriate package of the worktree; name it zz_seed_demo_test.go) or a small program that FAILS with your change and PASSES without it. Verify both directions yourself (save your change with `git diff > /tmp/seed/<id>.patch`, undo it with `git apply -R`, run the demo → pass; re-apply with `git apply`, run → fail; NEVER use `git stash`: the stash is shared between all worktrees of this repository and other people are using it). The demo may use unexported identifiers, fakes and deterministic scheduling hooks that already exist in the code.

Environment for every shell call (env does not persist between calls):
  export PATH=/root/go/pkg/mod/golang.org/toolchain@v0.0.1-go1.25.11.linux-amd64/bin:$PATH GOFLAGS=-mod=mod GOPROXY=off GOSUMDB=off GOTOOLCHAIN=local GOWORK=off
There is no network. Do not create other worktrees or copies of the repository.

Deliverables, in {wt}/SEED/ (create the directory):
  patch.diff   — `git diff` of the source change only (exclude the demo test and the SEED directory)
  the demo file(s) (copies), and demo.md with: where the demo goes and the exact command to run it
  meta.json    — {{"property": "{pid}", "summary": "...what you changed and why it breaks the property...", "needs_to_manifest": "...", "files_changed": [...], "demo_cmd": "...", "demo_fails_with_change": true/false, "demo_passes_without_change": true/false, "suite_cmd": "...", "suite_result": "...which packages you ran, any failures and whether they also fail without the change..."}}
Leave the worktree with your source change applied and the demo test in place. In your final message give a 5-line summary (what, where, what it needs to manifest, demo result, suite result).""")
