#!/bin/bash
# usage: seed_validate.sh <worktree with SEED/> <property id> [tier]
# Confirms: demo fails with the change and passes without it; then runs the /verif check against the mutated tree.
wt=$1; id=$2; tier=${3:-quick}
export PATH=/root/go/pkg/mod/golang.org/toolchain@v0.0.1-go1.25.11.linux-amd64/bin:$PATH GOFLAGS=-mod=mod GOPROXY=off GOSUMDB=off GOTOOLCHAIN=local GOWORK=off
cd "$wt" || exit 2
demo=$(python3 -c "import json;print(json.load(open('SEED/meta.json'))['demo_cmd'])")
echo "demo_cmd: $demo"
if ! git apply --check -R SEED/patch.diff 2>/dev/null; then echo "patch not applied in worktree; applying"; git apply SEED/patch.diff || exit 2; fi
go build ./... || { echo "BUILD FAILS with change"; exit 2; }
( eval "$demo" ) > /dev/shm/seed_demo_with.log 2>&1; with=$?
git apply -R SEED/patch.diff || exit 2
( eval "$demo" ) > /dev/shm/seed_demo_without.log 2>&1; without=$?
git apply SEED/patch.diff || exit 2
echo "demo exit with change=$with (want !=0), without change=$without (want 0)"
mkdir -p /dev/shm/seedrun/$id
cd /verif && VERIF_REPO="$wt" VERIF_EVIDENCE_DIR=/dev/shm/seedrun/$id VERIF_REPLAY_DIR=/dev/shm/seedrun/$id bin/vcheck $id --tier $tier > /dev/shm/seedrun/$id/check.out 2>&1; rc=$?; head -8 /dev/shm/seedrun/$id/check.out
echo "check exit=$rc"
