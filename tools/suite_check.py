#!/usr/bin/env python3
"""Run the repository's baseline suite (guard off) in a tree and compare with BASELINE.json.
usage: suite_check.py <repo dir> [pkg pattern ...]   (default ./...)
exit 0 if no stable-pass test fails; prints failing stable tests otherwise."""
import json, subprocess, sys, os
repo = sys.argv[1]
pk = sys.argv[2:] or ['./...']
base = json.load(open('/root/.vp/BASELINE.json'))
stable = set(base['stable_pass'])
env = dict(os.environ, GOFLAGS='-mod=mod', GOPROXY='off', GOSUMDB='off')
env['GOTOOLCHAIN']='local'
env['PATH']='/root/go/pkg/mod/golang.org/toolchain@v0.0.1-go1.25.11.linux-amd64/bin:'+env['PATH']
p = subprocess.Popen(['go', 'test', '-json', '-vet=off', '-count=1', '-timeout', '25m'] + pk, cwd=repo, env=env, stdout=subprocess.PIPE, stderr=subprocess.STDOUT, text=True)
res = {}
buildfail = []
for line in p.stdout:
    try:
        ev = json.loads(line)
    except Exception:
        continue
    a = ev.get('Action')
    if ev.get('Test') and a in ('pass', 'fail', 'skip'):
        res[ev['Package'] + '::' + ev['Test']] = a
    elif a == 'fail' and not ev.get('Test'):
        buildfail.append(ev.get('Package'))
p.wait()
if not res:
    print('no test events; go test failed to start', file=sys.stderr)
failed_stable = sorted(k for k, v in res.items() if v == 'fail' and k in stable)
missing = []
if pk == ['./...']:
    missing = sorted(k for k in stable if k not in res)
npass = sum(1 for k, v in res.items() if v == 'pass' and k in stable)
print(json.dumps({'stable_total': len(stable), 'stable_passed': npass, 'stable_failed': failed_stable, 'stable_missing': missing[:20], 'n_missing': len(missing), 'pkg_fail': buildfail}, indent=1))
sys.exit(1 if failed_stable or missing else 0)
